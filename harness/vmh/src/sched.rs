//! Schedule enumeration for the real AtomicBitmap (C08).
//!
//! The atomic shim (hook H1/H2 in /repo) calls `pre()` before and `post()` after every atomic
//! operation.  Worker threads run their operations for real; a baton scheduler lets exactly one
//! thread perform its next atomic step at a time, and the controller enumerates, depth first with
//! backtracking, EVERY ordering of those steps (or a seeded random sample when a cap is hit).
//! For each schedule the totally ordered list of atomic events (thread, kind, word, operand, value
//! found) together with operation begin / end marks and results is logged; verdicts are TLC's.
use crate::util::*;
use serde_json::{json, Value};
use std::cell::Cell;
use std::num::NonZeroUsize;
use std::sync::{Arc, Condvar, Mutex};
use vm_memory::bitmap::{AtomicBitmap, Bitmap};
use vm_memory::verif::shim::{set_atomic_hook, AtomicHook};

pub const NOT_SCHEDULED: usize = usize::MAX;
pub const PROBE: usize = usize::MAX - 1;

thread_local! {
    pub static TID: Cell<usize> = const { Cell::new(NOT_SCHEDULED) };
}

#[derive(Default)]
pub struct St {
    pub turn: Option<usize>,
    pub parked: Vec<bool>,
    pub done: Vec<bool>,
    pub log: Vec<Value>,
    pub last_idx: Vec<Option<usize>>,
    pub pending_begin: Vec<Option<Value>>,
    pub probe_addr: usize,
    pub base: usize,
    /// mark-order exploration (C05): primitive copies are scheduling points too
    pub copy_points: bool,
    /// a thread that logged a copy keeps the baton until its next scheduling point (the access follows the report)
    pub holding: Vec<bool>,
    /// guest memory under observation: (host base, length)
    pub mem: (usize, usize),
    /// number of 64-bit words of the bitmap under observation (0: not a bitmap run); an atomic step on any other word
    /// (a field the code under test may have added next to the bitmap) is a scheduling point without bitmap effect
    pub nwords: usize,
}

pub struct Shared {
    pub m: Mutex<St>,
    pub cv: Condvar,
}

fn bits(v: u64) -> Vec<u32> {
    (0..64).filter(|b| v & (1u64 << b) != 0).collect()
}

impl AtomicHook for Shared {
    fn pre(&self) {
        let tid = TID.with(|t| t.get());
        if tid == NOT_SCHEDULED || tid == PROBE {
            return;
        }
        let mut st = self.m.lock().unwrap();
        release_held(&mut st, tid);
        st.parked[tid] = true;
        self.cv.notify_all();
        while st.turn != Some(tid) {
            st = self.cv.wait(st).unwrap();
        }
        st.parked[tid] = false;
    }
    fn post(&self, kind: &'static str, addr: usize, arg: u64, old: u64) {
        let tid = TID.with(|t| t.get());
        if tid == NOT_SCHEDULED {
            return;
        }
        let mut st = self.m.lock().unwrap();
        if tid == PROBE {
            st.probe_addr = addr;
            return;
        }
        let word = (addr as i64 - st.base as i64) / 8;
        let foreign = st.nwords > 0 && (addr < st.base || addr >= st.base + 8 * st.nwords);
        let mut ev = if foreign {
            json!({"t": tid + 1, "kind": "noop", "w": 0, "arg": [], "old": [], "aux": kind})
        } else {
            json!({"t": tid + 1, "kind": kind, "w": word, "arg": bits(arg), "old": bits(old)})
        };
        if let Some(b) = st.pending_begin[tid].take() {
            ev["begin"] = b;
        }
        st.log.push(ev);
        let idx = st.log.len() - 1;
        st.last_idx[tid] = Some(idx);
        st.turn = None;
        self.cv.notify_all();
    }
    fn copy(&self, dst: usize, len: usize) {
        let tid = TID.with(|t| t.get());
        if tid == NOT_SCHEDULED || tid == PROBE {
            return;
        }
        if !self.m.lock().unwrap().copy_points {
            return;
        }
        self.pre();
        let mut st = self.m.lock().unwrap();
        let off = if dst >= st.mem.0 && dst < st.mem.0 + st.mem.1 { (dst - st.mem.0) as i64 } else { -1 };
        let mut ev = json!({"t": tid + 1, "kind": "copy", "w": 0, "arg": [], "old": [], "off": off, "len": len});
        if let Some(b) = st.pending_begin[tid].take() {
            ev["begin"] = b;
        }
        st.log.push(ev);
        let idx = st.log.len() - 1;
        st.last_idx[tid] = Some(idx);
        // the access itself follows this report: keep the baton until this thread's next scheduling point
        st.holding[tid] = true;
    }
}

impl Shared {
    /// called by a worker when an operation has returned: a baton kept since the last copy is given back
    pub fn op_returned(&self, tid: usize) {
        let mut st = self.m.lock().unwrap();
        if release_held(&mut st, tid) {
            self.cv.notify_all();
        }
    }
}

fn release_held(st: &mut St, tid: usize) -> bool {
    if st.holding.get(tid).copied().unwrap_or(false) {
        st.holding[tid] = false;
        st.turn = None;
        true
    } else {
        false
    }
}

/// A harness-level scheduled event: waits for the baton like an atomic step and logs `ev`.
pub fn annotate(sh: &Shared, mut ev: Value) {
    let tid = TID.with(|t| t.get());
    sh.pre();
    let mut st = sh.m.lock().unwrap();
    ev["t"] = json!(tid + 1);
    st.log.push(ev);
    st.turn = None;
    sh.cv.notify_all();
}

fn pages_of(words: &[u64]) -> Vec<usize> {
    let mut v = Vec::new();
    for (j, x) in words.iter().enumerate() {
        for b in 0..64 {
            if x & (1u64 << b) != 0 {
                v.push(j * 64 + b);
            }
        }
    }
    v
}

/// run one operation of a thread program on the shared bitmap; returns the operation's result
fn run_op(bm: &AtomicBitmap, op: &Value) -> Value {
    let k = op["k"].as_str().expect("harness: op kind");
    let g = |n: &str| op[n].as_u64().unwrap_or_else(|| panic!("harness: op arg {n}")) as usize;
    match k {
        "set_range" => {
            bm.set_addr_range(g("s"), g("l"));
            json!({"k": "unit"})
        }
        "reset_range" => {
            bm.reset_addr_range(g("s"), g("l"));
            json!({"k": "unit"})
        }
        "mark_slice" => {
            bm.slice_at(g("b")).mark_dirty(g("s"), g("l"));
            json!({"k": "unit"})
        }
        "set_bit" => {
            bm.set_bit(g("i"));
            json!({"k": "unit"})
        }
        "reset_bit" => {
            bm.reset_bit(g("i"));
            json!({"k": "unit"})
        }
        "harvest" => json!({"k": "pages", "pages": pages_of(&bm.get_and_reset())}),
        "reset" => {
            bm.reset();
            json!({"k": "unit"})
        }
        "clone" => {
            let c = bm.clone();
            TID.with(|t| {
                let me = t.get();
                t.set(NOT_SCHEDULED);
                let p: Vec<usize> = (0..c.len()).filter(|&i| c.is_bit_set(i)).collect();
                t.set(me);
                json!({"k": "pages", "pages": p})
            })
        }
        "is_set" => json!({"k": "bool", "v": bm.is_bit_set(g("i"))}),
        o => panic!("harness: unknown scheduled op {o}"),
    }
}

struct Decision {
    enabled: Vec<usize>,
    idx: usize,
}

#[derive(Default)]
pub struct SchedExec;

impl SchedExec {
    /// Runs one schedule. `path` is the decision prefix to replay; it is extended with the decisions taken.
    fn run_once(&self, sh: &Arc<Shared>, size: usize, progs: &[Vec<Value>], path: &mut Vec<Decision>, rnd: &mut Option<u64>) -> (Vec<Value>, Vec<usize>) {
        let n = progs.len();
        let bm = Arc::new(AtomicBitmap::new(size, NonZeroUsize::new(1).unwrap()));
        {
            let mut st = sh.m.lock().unwrap();
            *st = St { parked: vec![false; n], done: vec![false; n], last_idx: vec![None; n], pending_begin: vec![None; n], ..Default::default() };
        }
        // find the address of word 0
        TID.with(|t| t.set(PROBE));
        let _ = bm.is_bit_set(0);
        TID.with(|t| t.set(NOT_SCHEDULED));
        {
            let mut st = sh.m.lock().unwrap();
            st.base = st.probe_addr;
            st.nwords = (size + 63) / 64;
        }
        let mut handles = Vec::new();
        for (tid, prog) in progs.iter().enumerate() {
            let (sh, bm, prog) = (sh.clone(), bm.clone(), prog.clone());
            handles.push(std::thread::spawn(move || {
                TID.with(|t| t.set(tid));
                for op in prog {
                    {
                        let mut st = sh.m.lock().unwrap();
                        st.pending_begin[tid] = Some(op.clone());
                        st.last_idx[tid] = None;
                    }
                    let res = guarded(|| run_op(&bm, &op));
                    let mut st = sh.m.lock().unwrap();
                    if let Some(b) = st.pending_begin[tid].take() {
                        // the operation performed no atomic step at all
                        st.log.push(json!({"t": tid + 1, "kind": "noop", "w": 0, "arg": [], "old": [], "begin": b, "end": res}));
                    } else {
                        let idx = st.last_idx[tid].expect("harness: no last event");
                        st.log[idx]["end"] = res;
                    }
                }
                let mut st = sh.m.lock().unwrap();
                st.done[tid] = true;
                sh.cv.notify_all();
                TID.with(|t| t.set(NOT_SCHEDULED));
            }));
        }
        // controller
        let mut depth = 0;
        loop {
            let mut st = sh.m.lock().unwrap();
            // quiescence: every thread parked at a step or finished, and nobody holds the baton
            while !(st.turn.is_none() && (0..n).all(|t| st.parked[t] || st.done[t])) {
                st = sh.cv.wait(st).unwrap();
            }
            let enabled: Vec<usize> = (0..n).filter(|&t| st.parked[t] && !st.done[t]).collect();
            if enabled.is_empty() {
                break;
            }
            let choice = if depth < path.len() {
                if path[depth].enabled != enabled {
                    panic!("harness: nondeterministic enabled set at depth {depth}");
                }
                path[depth].enabled[path[depth].idx]
            } else {
                let idx = match rnd {
                    Some(s) => {
                        *s = s.wrapping_mul(6364136223846793005).wrapping_add(1442695040888963407);
                        ((*s >> 33) as usize) % enabled.len()
                    }
                    None => 0,
                };
                path.push(Decision { enabled: enabled.clone(), idx });
                enabled[idx]
            };
            depth += 1;
            st.turn = Some(choice);
            sh.cv.notify_all();
        }
        for h in handles {
            h.join().expect("harness: worker thread");
        }
        let log = std::mem::take(&mut sh.m.lock().unwrap().log);
        let fin: Vec<usize> = (0..bm.len() + 70).filter(|&i| bm.is_bit_set(i)).collect();
        (log, fin)
    }
}

impl Exec for SchedExec {
    /// one input line = one scenario; the returned value is an ARRAY of events (flattened by main)
    fn step(&mut self, line: &Value) -> Value {
        let size = us(line, "size");
        let cap = line["a"]["max_schedules"].as_u64().unwrap_or(5000) as usize;
        let seed = line["a"]["seed"].as_u64().unwrap_or(1);
        let progs: Vec<Vec<Value>> = line["a"]["threads"].as_array().expect("harness: threads").iter().map(|p| p.as_array().unwrap().clone()).collect();
        let sh = Arc::new(Shared { m: Mutex::new(St::default()), cv: Condvar::new() });
        set_atomic_hook(Some(sh.clone()));
        let mut out: Vec<Value> = Vec::new();
        let mut path: Vec<Decision> = Vec::new();
        let mut count = 0usize;
        let mut exhaustive = true;
        loop {
            let mut no_rnd = None;
            let (log, fin) = self.run_once(&sh, size, &progs, &mut path, &mut no_rnd);
            count += 1;
            out.push(json!({"op": "init", "a": {"size": size, "threads": line["a"]["threads"], "sched": count,
                                               "order": log.iter().map(|e| e["t"].clone()).collect::<Vec<_>>()}}));
            for e in log {
                out.push(json!({"op": "step", "a": e}));
            }
            out.push(json!({"op": "final", "a": {"bits": fin}}));
            // backtrack to the deepest decision with an untried alternative
            while let Some(d) = path.last_mut() {
                if d.idx + 1 < d.enabled.len() {
                    d.idx += 1;
                    break;
                }
                path.pop();
            }
            if path.is_empty() {
                break;
            }
            if count >= cap {
                exhaustive = false;
                break;
            }
        }
        if !exhaustive {
            // a seeded random sample of further schedules
            let mut s = Some(seed);
            for _ in 0..cap / 2 {
                let mut p: Vec<Decision> = Vec::new();
                let (log, fin) = self.run_once(&sh, size, &progs, &mut p, &mut s);
                count += 1;
                out.push(json!({"op": "init", "a": {"size": size, "threads": line["a"]["threads"], "sched": count,
                                                   "order": log.iter().map(|e| e["t"].clone()).collect::<Vec<_>>()}}));
                for e in log {
                    out.push(json!({"op": "step", "a": e}));
                }
                out.push(json!({"op": "final", "a": {"bits": fin}}));
            }
        }
        set_atomic_hook(None);
        out.push(json!({"op": "summary", "a": {"schedules": count, "exhaustive": exhaustive}}));
        Value::Array(out)
    }
}
