//! Executor for CopyWidth (C06): which primitive accesses (hook H3) each entry point that funnels into
//! the byte-copy helper issues for a transfer of `n` bytes with chosen guest / local address residues.
use crate::types::*;
use crate::util::*;
use serde_json::{json, Value};
use std::io::Cursor;
use std::sync::atomic::Ordering;
use vm_memory::verif::access;
use vm_memory::{
    Bytes, GuestAddress, GuestMemory, GuestMemoryMmap, GuestMemoryRegion, MemoryRegionAddress, ReadVolatile, VolatileArrayRef,
    VolatileMemory, VolatileSlice, WriteVolatile,
};

static mut MARK: u64 = 0;

pub struct CopyExec {
    gm: GuestMemoryMmap<()>,
    heap: Vec<u8>,
    local: Vec<u8>,
}

impl Default for CopyExec {
    fn default() -> Self {
        CopyExec {
            gm: GuestMemoryMmap::from_ranges(&[(GuestAddress(0x1000), 4096)]).expect("harness: guest memory"),
            heap: vec![0u8; 256],
            local: vec![0u8; 256],
        }
    }
}

fn aligned(v: &mut [u8], m: usize) -> *mut u8 {
    let p = v.as_mut_ptr() as usize;
    (((p + 15) & !15) + 16 + m) as *mut u8
}

impl Exec for CopyExec {
    fn step(&mut self, line: &Value) -> Value {
        let entry = s(line, "entry").to_string();
        let n = us(line, "n");
        let gmod = us(line, "gmod");
        let lmod = us(line, "lmod");
        let gp = aligned(&mut self.heap, gmod); // guest side for slice-level entries
        let lp = aligned(&mut self.local, lmod); // local buffer
        for i in 0..64 {
            unsafe {
                *gp.add(i) = (i + 1) as u8;
                *lp.add(i) = (i + 101) as u8;
            }
        }
        let vs = unsafe { VolatileSlice::new(gp, 64) };
        let lbuf: &[u8] = unsafe { std::slice::from_raw_parts(lp, n) };
        let lbuf_mut: &mut [u8] = unsafe { std::slice::from_raw_parts_mut(lp, n) };
        let region = self.gm.iter().next().unwrap();
        let rhost = region.as_ptr() as usize;
        let goff = 8 + gmod; // offset inside the region (host page aligned, so host residue = gmod)
        let gaddr = GuestAddress(0x1000 + goff as u64);
        let raddr = MemoryRegionAddress(goff as u64);
        // where the guest side of this entry starts (host address)
        let gstart = if entry.starts_with("r_") || entry.starts_with("g_") { rhost + goff } else { gp as usize };
        let mut to_guest = true;
        let mut res = json!({"k": "ok"});
        // the ordering requested from the atomic entries (loads: relaxed / acquire / seqcst; stores: relaxed / release / seqcst)
        let ord = match line["a"]["ord"].as_str().unwrap_or("seqcst") {
            "relaxed" => Ordering::Relaxed,
            "acquire" => Ordering::Acquire,
            "release" => Ordering::Release,
            _ => Ordering::SeqCst,
        };
        access::start();
        // machine-level runs (valgrind lackey): a store to MARK opens and closes the window of this library call
        let mach = std::env::var("VMH_MACH").is_ok();
        if mach {
            unsafe { std::ptr::write_volatile(std::ptr::addr_of_mut!(MARK), 1) };
        }
        let r = guarded(|| {
            match entry.as_str() {
                "s_write" => drop(vs.write(lbuf, 0)),
                "s_write_slice" => drop(vs.write_slice(lbuf, 0)),
                "s_read" => {
                    to_guest = false;
                    drop(vs.read(lbuf_mut, 0))
                }
                "s_read_slice" => {
                    to_guest = false;
                    drop(vs.read_slice(lbuf_mut, 0))
                }
                "s_copy_from_u8" => vs.copy_from::<u8>(lbuf),
                "s_copy_to_u8" => {
                    to_guest = false;
                    drop(vs.copy_to::<u8>(lbuf_mut))
                }
                "a_copy_from_u8" => VolatileArrayRef::<u8, ()>::from(vs).copy_from(lbuf),
                "a_copy_to_u8" => {
                    to_guest = false;
                    drop(VolatileArrayRef::<u8, ()>::from(vs).copy_to(lbuf_mut))
                }
                "s_read_volatile_from_slice" => {
                    let mut src: &[u8] = lbuf;
                    drop(vs.read_volatile_from(0, &mut src, n))
                }
                "s_read_exact_from_slice" => {
                    let mut src: &[u8] = lbuf;
                    drop(vs.read_exact_volatile_from(0, &mut src, n))
                }
                "s_read_from_cursor" => {
                    let mut c = Cursor::new(lbuf);
                    drop(vs.read_volatile_from(0, &mut c, n))
                }
                "s_write_volatile_to_mutslice" => {
                    to_guest = false;
                    let mut dst: &mut [u8] = lbuf_mut;
                    drop(vs.write_volatile_to(0, &mut dst, n))
                }
                "s_write_all_to_mutslice" => {
                    to_guest = false;
                    let mut dst: &mut [u8] = lbuf_mut;
                    drop(vs.write_all_volatile_to(0, &mut dst, n))
                }
                "s_write_to_cursor" => {
                    to_guest = false;
                    let mut c = Cursor::new(lbuf_mut);
                    drop(vs.write_volatile_to(0, &mut c, n))
                }
                "s_write_to_vec" => {
                    to_guest = false;
                    let mut v: Vec<u8> = Vec::with_capacity(64);
                    drop(vs.write_volatile_to(0, &mut v, n))
                }
                "s_write_to_vec_used" => {
                    // a vector that has been written to before and has less spare capacity than the transfer
                    to_guest = false;
                    let mut v: Vec<u8> = Vec::with_capacity(12);
                    v.extend_from_slice(&[0u8; 8]);
                    drop(vs.write_volatile_to(0, &mut v, n))
                }
                "s_write_all_to_vec_used" => {
                    to_guest = false;
                    let mut v: Vec<u8> = Vec::with_capacity(12);
                    v.extend_from_slice(&[0u8; 8]);
                    drop(vs.write_all_volatile_to(0, &mut v, n))
                }
                "adapter_read_volatile" => {
                    let mut src: &[u8] = lbuf;
                    let mut sub = vs.subslice(0, n).unwrap();
                    drop(src.read_volatile(&mut sub))
                }
                "adapter_write_volatile" => {
                    to_guest = false;
                    let mut dst: &mut [u8] = lbuf_mut;
                    let sub = vs.subslice(0, n).unwrap();
                    drop(dst.write_volatile(&sub))
                }
                "s_write_obj" => with_atomic_ty!(n, T, { drop(vs.write_obj::<T>(from_bytes::<T>(lbuf), 0)) }),
                "s_read_obj" => {
                    to_guest = false;
                    with_atomic_ty!(n, T, { drop(vs.read_obj::<T>(0)) })
                }
                "r_write" => drop(region.write(lbuf, raddr)),
                "r_read" => {
                    to_guest = false;
                    drop(region.read(lbuf_mut, raddr))
                }
                "r_write_obj" => with_atomic_ty!(n, T, { drop(region.write_obj::<T>(from_bytes::<T>(lbuf), raddr)) }),
                "r_read_obj" => {
                    to_guest = false;
                    with_atomic_ty!(n, T, { drop(region.read_obj::<T>(raddr)) })
                }
                "g_write" => drop(self.gm.write(lbuf, gaddr)),
                "g_write_slice" => drop(self.gm.write_slice(lbuf, gaddr)),
                "g_read" => {
                    to_guest = false;
                    drop(self.gm.read(lbuf_mut, gaddr))
                }
                "g_read_slice" => {
                    to_guest = false;
                    drop(self.gm.read_slice(lbuf_mut, gaddr))
                }
                "g_write_obj" => with_atomic_ty!(n, T, { drop(self.gm.write_obj::<T>(from_bytes::<T>(lbuf), gaddr)) }),
                "g_read_obj" => {
                    to_guest = false;
                    with_atomic_ty!(n, T, { drop(self.gm.read_obj::<T>(gaddr)) })
                }
                // atomic store / load: misaligned addresses must be refused (no access through the helper at all)
                "s_store" => with_atomic_ty!(n, T, {
                    res = match vs.store::<T>(from_bytes::<T>(lbuf), 0, ord) {
                        Ok(()) => json!({"k": "ok"}),
                        Err(_) => json!({"k": "err"}),
                    }
                }),
                "s_load" => {
                    to_guest = false;
                    with_atomic_ty!(n, T, {
                    res = match vs.load::<T>(0, ord) {
                        Ok(_) => json!({"k": "ok"}),
                        Err(_) => json!({"k": "err"}),
                    }
                    })
                }
                "r_store" => with_atomic_ty!(n, T, {
                    res = match region.store::<T>(from_bytes::<T>(lbuf), raddr, ord) {
                        Ok(()) => json!({"k": "ok"}),
                        Err(_) => json!({"k": "err"}),
                    }
                }),
                "r_load" => {
                    to_guest = false;
                    with_atomic_ty!(n, T, {
                    res = match region.load::<T>(raddr, ord) {
                        Ok(_) => json!({"k": "ok"}),
                        Err(_) => json!({"k": "err"}),
                    }
                    })
                }
                "g_store" => with_atomic_ty!(n, T, {
                    res = match self.gm.store::<T>(from_bytes::<T>(lbuf), gaddr, ord) {
                        Ok(()) => json!({"k": "ok"}),
                        Err(_) => json!({"k": "err"}),
                    }
                }),
                "g_load" => {
                    to_guest = false;
                    with_atomic_ty!(n, T, {
                    res = match self.gm.load::<T>(gaddr, ord) {
                        Ok(_) => json!({"k": "ok"}),
                        Err(_) => json!({"k": "err"}),
                    }
                    })
                }
                e => panic!("harness: unknown copy entry {e}"),
            }
            json!(null)
        });
        if mach {
            unsafe { std::ptr::write_volatile(std::ptr::addr_of_mut!(MARK), 2) };
        }
        let acc = access::take();
        if r.get("k").is_some() {
            res = r; // panic
        }
        let list: Vec<Value> = acc
            .iter()
            .map(|a| {
                let (g, l) = if to_guest { (a.dst, a.src) } else { (a.src, a.dst) };
                json!({"w": a.width, "bulk": a.bulk, "goff": g as i64 - gstart as i64, "gres": g % 8, "lres": l % 8})
            })
            .collect();
        // residues actually realised (the local side of typed object transfers is chosen by the callee)
        let (gres, lres) = match acc.first() {
            Some(a) => {
                let (g, l) = if to_guest { (a.dst, a.src) } else { (a.src, a.dst) };
                (g % 8, l % 8)
            }
            None => (gstart % 8, lp as usize % 8),
        };
        let mut out = json!({"op": "copy", "a": line["a"], "r": {"res": res, "acc": list, "gres": gres, "lres": lres,
               "to_guest": to_guest}});
        if mach {
            out["r"]["mark"] = json!(std::ptr::addr_of!(MARK) as usize);
            out["r"]["gstart"] = json!(gstart);
        }
        out
    }
}
