//! Executor for AddrArith (C19): GuestAddress, MemoryRegionAddress and the 8-bit instantiation of
//! the crate's own macro (hook H6).  Stateless: every line is one operation on two operands.
use crate::util::*;
use serde_json::{json, Value};
use vm_memory::verif::VerifAddr8;
use vm_memory::{Address, GuestAddress, MemoryRegionAddress};

#[derive(Default)]
pub struct AddrExec;

fn some<T: Into<Value>>(o: Option<T>) -> Value {
    match o {
        Some(v) => json!({"k": "some", "v": v.into()}),
        None => json!({"k": "none"}),
    }
}

macro_rules! ops {
    ($A:ident, $V:ty, $op:expr, $a:expr, $b:expr) => {{
        let a = $A($a as $V);
        let bv = $b as $V;
        match $op {
            "checked_add" => some(a.checked_add(bv).map(|x| x.raw_value())),
            "overflowing_add" => {
                let (x, f) = a.overflowing_add(bv);
                json!({"k": "ovf", "v": x.raw_value(), "f": f})
            }
            "unchecked_add" => json!({"k": "val", "v": a.unchecked_add(bv).raw_value()}),
            "checked_sub" => some(a.checked_sub(bv).map(|x| x.raw_value())),
            "overflowing_sub" => {
                let (x, f) = a.overflowing_sub(bv);
                json!({"k": "ovf", "v": x.raw_value(), "f": f})
            }
            "unchecked_sub" => json!({"k": "val", "v": a.unchecked_sub(bv).raw_value()}),
            "checked_offset_from" => some(a.checked_offset_from($A(bv))),
            "unchecked_offset_from" => json!({"k": "val", "v": a.unchecked_offset_from($A(bv))}),
            "checked_align_up" => some(a.checked_align_up(bv).map(|x| x.raw_value())),
            "unchecked_align_up" => json!({"k": "val", "v": a.unchecked_align_up(bv).raw_value()}),
            "mask" => json!({"k": "val", "v": a.mask(bv)}),
            "bitand" => json!({"k": "val", "v": (a & bv).raw_value()}),
            "bitor" => json!({"k": "val", "v": (a | bv).raw_value()}),
            "lt" => json!({"k": "bool", "v": a < $A(bv)}),
            "eq" => json!({"k": "bool", "v": a == $A(bv) && !(a != $A(bv))}),
            "raw" => json!({"k": "val", "v": $A::new($a as $V).raw_value()}),
            o => panic!("harness: unknown address op {o}"),
        }
    }};
}

impl Exec for AddrExec {
    fn step(&mut self, line: &Value) -> Value {
        let op = line["op"].as_str().expect("op");
        let ty = s(line, "ty");
        let a = u(line, "a");
        let b = u(line, "b");
        let r = guarded(|| match ty {
            "g" => ops!(GuestAddress, u64, op, a, b),
            "r" => ops!(MemoryRegionAddress, u64, op, a, b),
            "a8" => ops!(VerifAddr8, u8, op, a, b),
            t => panic!("harness: unknown address type {t}"),
        });
        json!({"op": op, "a": line["a"], "r": r})
    }
}
