//! Executor for Streams (C13): every ReadVolatile / WriteVolatile adapter the crate provides, run next to
//! the corresponding std::io::Read / Write implementation on a twin stream with an ordinary buffer.
use crate::util::*;
use serde_json::{json, Value};
use std::io::{Cursor, Read, Seek, SeekFrom, Write};
use std::os::fd::{AsFd, OwnedFd};
use std::os::unix::fs::FileExt;
use std::os::unix::net::UnixStream;
use vm_memory::{ReadVolatile, VolatileMemoryError, VolatileSlice, WriteVolatile};

const FILL: u8 = 238;
const CANARY: usize = 32;

enum Stream {
    SliceSrc(&'static [u8]),
    SliceSink { full: *mut u8, len: usize, rem: &'static mut [u8] },
    Vec(Vec<u8>),
    CursorVec(Cursor<Vec<u8>>),
    CursorSlice(Cursor<&'static [u8]>),
    CursorSink(Cursor<&'static mut [u8]>, *mut u8, usize),
    File(std::fs::File),
    Ofd(OwnedFd),
    Bfd(std::fs::File),
    UnixSrc { rx: UnixStream, preload: Vec<u8>, consumed: usize },
    UnixSink { tx: UnixStream, rx: UnixStream, received: Vec<u8> },
    /// a socket whose peer delivers the data in separate chunks with pauses: reads come back short
    UnixChunks { rx: UnixStream, preload: Vec<u8>, consumed: usize },
}

fn leak(v: Vec<u8>) -> &'static mut [u8] {
    Box::leak(v.into_boxed_slice())
}

static COUNTER: std::sync::atomic::AtomicUsize = std::sync::atomic::AtomicUsize::new(0);

fn temp_file(data: &[u8]) -> std::fs::File {
    let n = COUNTER.fetch_add(1, std::sync::atomic::Ordering::SeqCst);
    let path = std::env::temp_dir().join(format!("vmh-stream-{}-{}", std::process::id(), n));
    let mut f = std::fs::OpenOptions::new().read(true).write(true).create(true).truncate(true).open(&path).expect("harness: temp file");
    f.write_all(data).expect("harness: fill file");
    f.seek(SeekFrom::Start(0)).unwrap();
    let _ = std::fs::remove_file(&path);
    f
}

fn mk(kind: &str, data: &[u8], pos: u64) -> Stream {
    match kind {
        "slice_src" => Stream::SliceSrc(leak(data.to_vec())),
        "slice_sink" => {
            let b = leak(data.to_vec());
            let (p, l) = (b.as_mut_ptr(), b.len());
            let skip = (pos as usize).min(l);
            Stream::SliceSink { full: p, len: l, rem: &mut b[skip..] }
        }
        "vec" => Stream::Vec(data.to_vec()),
        "cursor_vec" => {
            let mut c = Cursor::new(data.to_vec());
            c.set_position(pos);
            Stream::CursorVec(c)
        }
        "cursor_slice" => {
            let b: &'static [u8] = leak(data.to_vec());
            let mut c = Cursor::new(b);
            c.set_position(pos);
            Stream::CursorSlice(c)
        }
        "cursor_sink" => {
            let b = leak(data.to_vec());
            let (p, l) = (b.as_mut_ptr(), b.len());
            let mut c = Cursor::new(b);
            c.set_position(pos);
            Stream::CursorSink(c, p, l)
        }
        "file" | "ofd" | "bfd" => {
            let mut f = temp_file(data);
            f.seek(SeekFrom::Start(pos)).unwrap();
            match kind {
                "file" => Stream::File(f),
                "ofd" => Stream::Ofd(OwnedFd::from(f)),
                _ => Stream::Bfd(f),
            }
        }
        "unix_src" => {
            let (mut tx, rx) = UnixStream::pair().expect("harness: socketpair");
            tx.write_all(data).expect("harness: preload socket");
            drop(tx); // end of stream after the preloaded bytes
            Stream::UnixSrc { rx, preload: data.to_vec(), consumed: 0 }
        }
        k if k.starts_with("unix_chunks") => {
            // kind = "unix_chunks:<c1>,<c2>,..." : chunk sizes (the rest of the data goes in a last chunk)
            let sizes: Vec<usize> = k.split(':').nth(1).unwrap_or("").split(',').filter_map(|x| x.parse().ok()).collect();
            let (mut tx, rx) = UnixStream::pair().expect("harness: socketpair");
            let payload = data.to_vec();
            std::thread::spawn(move || {
                let mut at = 0;
                for c in sizes {
                    let end = (at + c).min(payload.len());
                    if tx.write_all(&payload[at..end]).is_err() {
                        return;
                    }
                    at = end;
                    std::thread::sleep(std::time::Duration::from_millis(12));
                }
                let _ = tx.write_all(&payload[at..]);
                // dropping tx ends the stream
            });
            Stream::UnixChunks { rx, preload: data.to_vec(), consumed: 0 }
        }
        "unix_sink" => {
            let (tx, rx) = UnixStream::pair().expect("harness: socketpair");
            rx.set_nonblocking(true).unwrap();
            Stream::UnixSink { tx, rx, received: data.to_vec() }
        }
        k => panic!("harness: unknown stream kind {k}"),
    }
}

fn fd_state(fd: &impl AsFd) -> (Vec<u8>, u64) {
    let f = std::fs::File::from(fd.as_fd().try_clone_to_owned().expect("harness: dup"));
    let len = f.metadata().unwrap().len() as usize;
    let mut v = vec![0u8; len];
    f.read_exact_at(&mut v, 0).expect("harness: pread");
    let pos = (&f).seek(SeekFrom::Current(0)).unwrap();
    (v, pos)
}

impl Stream {
    fn state(&mut self) -> Value {
        let (data, pos): (Vec<u8>, u64) = match self {
            Stream::SliceSrc(r) => (r.to_vec(), 0),
            Stream::SliceSink { full, len, rem } => {
                (unsafe { std::slice::from_raw_parts(*full, *len).to_vec() }, (*len - rem.len()) as u64)
            }
            Stream::Vec(v) => (v.clone(), 0),
            Stream::CursorVec(c) => (c.get_ref().clone(), c.position()),
            Stream::CursorSlice(c) => (c.get_ref().to_vec(), c.position()),
            Stream::CursorSink(c, p, l) => (unsafe { std::slice::from_raw_parts(*p, *l).to_vec() }, c.position()),
            Stream::File(f) => fd_state(f),
            Stream::Ofd(f) => fd_state(f),
            Stream::Bfd(f) => fd_state(f),
            Stream::UnixSrc { preload, consumed, .. } | Stream::UnixChunks { preload, consumed, .. } => {
                (preload[(*consumed).min(preload.len())..].to_vec(), 0)
            }
            Stream::UnixSink { rx, received, .. } => {
                let mut tmp = [0u8; 4096];
                while let Ok(n) = rx.read(&mut tmp) {
                    if n == 0 {
                        break;
                    }
                    received.extend_from_slice(&tmp[..n]);
                }
                (received.clone(), 0)
            }
        };
        json!({"data": data, "pos": pos})
    }
}

fn io_kind(e: &std::io::Error) -> String {
    format!("{:?}", e.kind())
}

fn vol_err(e: &VolatileMemoryError) -> Value {
    match e {
        VolatileMemoryError::IOError(io) => json!({"k": "err", "io": io_kind(io)}),
        other => json!({"k": "err", "io": format!("{:?}", other)}),
    }
}

/// volatile read into a fresh FILL-ed buffer of `bl` bytes surrounded by canaries
fn vread<S: ReadVolatile>(s: &mut S, bl: usize, exact: bool) -> Value {
    let mut back = vec![0xCAu8; bl + 2 * CANARY];
    for b in &mut back[CANARY..CANARY + bl] {
        *b = FILL;
    }
    let r = {
        let mut vs = unsafe { VolatileSlice::new(back.as_mut_ptr().add(CANARY), bl) };
        if exact {
            s.read_exact_volatile(&mut vs).map(|()| bl)
        } else {
            s.read_volatile(&mut vs)
        }
    };
    let canary = back[..CANARY].iter().all(|&b| b == 0xCA) && back[CANARY + bl..].iter().all(|&b| b == 0xCA);
    match r {
        Ok(n) => {
            let mut v = json!({"k": "ok", "buf": back[CANARY..CANARY + bl], "canary": canary});
            if !exact {
                v["n"] = json!(n);
            }
            v
        }
        Err(e) => {
            let mut v = vol_err(&e);
            v["canary"] = json!(canary);
            v
        }
    }
}

fn sread<S: Read>(s: &mut S, bl: usize, exact: bool) -> Value {
    let mut buf = vec![FILL; bl];
    let r = if exact { s.read_exact(&mut buf).map(|()| bl) } else { s.read(&mut buf) };
    match r {
        Ok(n) => {
            let mut v = json!({"k": "ok", "buf": buf, "canary": true});
            if !exact {
                v["n"] = json!(n);
            }
            v
        }
        Err(e) => json!({"k": "err", "io": io_kind(&e), "canary": true}),
    }
}

fn vwrite<S: WriteVolatile>(s: &mut S, data: &[u8], all: bool) -> Value {
    let mut back = data.to_vec();
    let r = {
        let vs = unsafe { VolatileSlice::new(back.as_mut_ptr(), back.len()) };
        if all {
            s.write_all_volatile(&vs).map(|()| data.len())
        } else {
            s.write_volatile(&vs)
        }
    };
    match r {
        Ok(n) => {
            if all {
                json!({"k": "ok", "src_intact": back == data})
            } else {
                json!({"k": "ok", "n": n, "src_intact": back == data})
            }
        }
        Err(e) => vol_err(&e),
    }
}

fn swrite<S: Write>(s: &mut S, data: &[u8], all: bool) -> Value {
    let r = if all { s.write_all(data).map(|()| data.len()) } else { s.write(data) };
    match r {
        Ok(n) => {
            if all {
                json!({"k": "ok", "src_intact": true})
            } else {
                json!({"k": "ok", "n": n, "src_intact": true})
            }
        }
        Err(e) => json!({"k": "err", "io": io_kind(&e)}),
    }
}

fn skip() -> Value {
    json!({"k": "skip"})
}

macro_rules! rd {
    ($vol:expr, $s:expr, $bl:expr, $exact:expr) => {
        if $vol {
            vread($s, $bl, $exact)
        } else {
            sread($s, $bl, $exact)
        }
    };
}
macro_rules! wr {
    ($vol:expr, $s:expr, $d:expr, $all:expr) => {
        if $vol {
            vwrite($s, $d, $all)
        } else {
            swrite($s, $d, $all)
        }
    };
}

fn apply(st: &mut Stream, vol: bool, op: &str, line: &Value) -> Value {
    let bl = line["a"]["bl"].as_u64().unwrap_or(0) as usize;
    let data: Vec<u8> = line["a"]["buf"].as_array().map(|a| a.iter().map(|x| x.as_u64().unwrap() as u8).collect()).unwrap_or_default();
    let exact = op == "read_exact";
    let all = op == "write_all";
    match op {
        "read" | "read_exact" => match st {
            Stream::SliceSrc(r) => rd!(vol, r, bl, exact),
            Stream::CursorVec(c) => rd!(vol, c, bl, exact),
            Stream::CursorSlice(c) => rd!(vol, c, bl, exact),
            Stream::File(f) => rd!(vol, f, bl, exact),
            Stream::Ofd(f) => {
                if vol {
                    vread(f, bl, exact)
                } else {
                    let mut g = std::fs::File::from(f.try_clone().expect("harness: dup"));
                    sread(&mut g, bl, exact)
                }
            }
            Stream::Bfd(f) => {
                if vol {
                    let mut b = f.as_fd();
                    vread(&mut b, bl, exact)
                } else {
                    sread(f, bl, exact)
                }
            }
            Stream::UnixChunks { .. } if !exact => skip(),
            Stream::UnixSrc { rx, consumed, .. } | Stream::UnixChunks { rx, consumed, .. } => {
                let v = rd!(vol, rx, bl, exact);
                if v["k"] == "ok" {
                    *consumed += v["n"].as_u64().unwrap_or(bl as u64) as usize;
                } else {
                    // a failed exact read on a socket has drained it (the loop reads until end of stream)
                    *consumed = usize::MAX;
                }
                v
            }
            _ => skip(),
        },
        "write" | "write_all" => match st {
            Stream::SliceSink { rem, .. } => wr!(vol, rem, &data, all),
            Stream::Vec(v) => wr!(vol, v, &data, all),
            Stream::CursorSink(c, _, _) => wr!(vol, c, &data, all),
            Stream::File(f) => wr!(vol, f, &data, all),
            Stream::Ofd(f) => {
                if vol {
                    vwrite(f, &data, all)
                } else {
                    let mut g = std::fs::File::from(f.try_clone().expect("harness: dup"));
                    swrite(&mut g, &data, all)
                }
            }
            Stream::Bfd(f) => {
                if vol {
                    let mut b = f.as_fd();
                    vwrite(&mut b, &data, all)
                } else {
                    swrite(f, &data, all)
                }
            }
            Stream::UnixSink { tx, .. } => wr!(vol, tx, &data, all),
            _ => skip(),
        },
        "set_pos" => {
            let p = line["a"]["p"].as_u64().expect("harness: p");
            match st {
                Stream::CursorVec(c) => c.set_position(p),
                Stream::CursorSlice(c) => c.set_position(p),
                Stream::CursorSink(c, _, _) => c.set_position(p),
                Stream::File(f) | Stream::Bfd(f) => {
                    f.seek(SeekFrom::Start(p)).unwrap();
                }
                Stream::Ofd(f) => {
                    let g = std::fs::File::from(f.try_clone().expect("harness: dup"));
                    (&g).seek(SeekFrom::Start(p)).unwrap();
                }
                _ => return skip(),
            }
            json!({"k": "ok"})
        }
        o => panic!("harness: unknown stream op {o}"),
    }
}

#[derive(Default)]
pub struct StreamExec {
    vol: Option<Stream>,
    twin: Option<Stream>,
    kind: String,
}

/// A descriptor sink that takes LESS than it is offered: a non-blocking socket with the smallest send buffer whose peer
/// does not read.  The adapter must report what the kernel took (it is then drained and compared); std on a twin
/// socket is run next to it.
fn full_sock(line: &Value) -> Value {
    use std::os::fd::AsRawFd;
    let len = us(line, "len");
    let exact = line["a"]["exact"].as_bool().unwrap_or(false);
    let buf: Vec<u8> = (0..len).map(|i| (i % 251) as u8 + 1).collect();
    let mk_pair = || {
        let (tx, rx) = UnixStream::pair().expect("harness: socketpair");
        let v: libc::c_int = 1;
        unsafe { libc::setsockopt(tx.as_raw_fd(), libc::SOL_SOCKET, libc::SO_SNDBUF, &v as *const _ as *const libc::c_void, 4) };
        tx.set_nonblocking(true).unwrap();
        rx.set_nonblocking(true).unwrap();
        (tx, rx)
    };
    let drain = |rx: &mut UnixStream| {
        let mut got = Vec::new();
        let mut tmp = [0u8; 4096];
        while let Ok(n) = rx.read(&mut tmp) {
            if n == 0 {
                break;
            }
            got.extend_from_slice(&tmp[..n]);
        }
        got
    };
    let ioerr = |e: &std::io::Error| json!({"k": "err", "io": format!("{:?}", e.kind())});
    // the adapter
    let (mut tx, mut rx) = mk_pair();
    let mut own = buf.clone();
    let vs = VolatileSlice::from(&mut own[..]);
    let rv = guarded(|| {
        if exact {
            match tx.write_all_volatile(&vs) {
                Ok(()) => json!({"k": "ok", "n": len}),
                Err(VolatileMemoryError::IOError(e)) => ioerr(&e),
                Err(e) => json!({"k": "err", "io": format!("{e:?}")}),
            }
        } else {
            match tx.write_volatile(&vs) {
                Ok(n) => json!({"k": "ok", "n": n}),
                Err(VolatileMemoryError::IOError(e)) => ioerr(&e),
                Err(e) => json!({"k": "err", "io": format!("{e:?}")}),
            }
        }
    });
    let got_v = drain(&mut rx);
    // std on a twin socket
    let (mut tx2, mut rx2) = mk_pair();
    let rs = if exact {
        match tx2.write_all(&buf) {
            Ok(()) => json!({"k": "ok", "n": len}),
            Err(e) => ioerr(&e),
        }
    } else {
        match tx2.write(&buf) {
            Ok(n) => json!({"k": "ok", "n": n}),
            Err(e) => ioerr(&e),
        }
    };
    let got_s = drain(&mut rx2);
    json!({"op": "full_sock", "a": line["a"],
           "r": {"vol": rv, "std": rs, "delivered": got_v.len(), "delivered_std": got_s.len(), "prefix": got_v[..] == buf[..got_v.len().min(len)]},
           "s": {"vol": {"data": [], "pos": 0}, "std": {"data": [], "pos": 0}}})
}

impl Exec for StreamExec {
    fn step(&mut self, line: &Value) -> Value {
        let op = line["op"].as_str().expect("op");
        if op == "full_sock" {
            return full_sock(line);
        }
        if op == "init" {
            let kind = s(line, "kind");
            let data: Vec<u8> = line["a"]["data"].as_array().expect("harness: data").iter().map(|x| x.as_u64().unwrap() as u8).collect();
            let pos = line["a"]["pos"].as_u64().unwrap_or(0);
            self.kind = kind.to_string();
            if kind == "unix_chunks" {
                let cs: Vec<String> = line["a"]["chunks"].as_array().map(|v| v.iter().map(|x| x.to_string()).collect()).unwrap_or_default();
                self.kind = format!("unix_chunks:{}", cs.join(","));
            }
            let kind = self.kind.clone();
            let kind = kind.as_str();
            self.vol = Some(mk(kind, &data, pos));
            self.twin = Some(mk(kind, &data, pos));
            let sv = self.vol.as_mut().unwrap().state();
            let ss = self.twin.as_mut().unwrap().state();
            return json!({"op": op, "a": line["a"], "r": {"vol": {"k": "ok"}, "std": {"k": "ok"}}, "s": {"vol": sv, "std": ss}});
        }
        let rv = guarded(|| apply(self.vol.as_mut().expect("harness: no stream"), true, op, line));
        let rs = guarded(|| apply(self.twin.as_mut().expect("harness: no stream"), false, op, line));
        let sv = self.vol.as_mut().unwrap().state();
        let ss = self.twin.as_mut().unwrap().state();
        if rv["k"] == "err" || rs["k"] == "err" || sv != ss {
            // the state after a failed exact transfer is unspecified, and a divergence is reported once (by TLC) rather than
            // carried into every later event: restart the twin from the adapter's state
            let data: Vec<u8> = sv["data"].as_array().unwrap().iter().map(|x| x.as_u64().unwrap() as u8).collect();
            self.twin = Some(mk(&self.kind, &data, sv["pos"].as_u64().unwrap()));
        }
        json!({"op": op, "a": line["a"], "r": {"vol": rv, "std": rs}, "s": {"vol": sv, "std": ss}})
    }
}
