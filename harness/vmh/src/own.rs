//! Executor for Ownership (C12, dynamic half): regions over uniquely named backing files (owned by the
//! library, or mapped by the harness and handed over as raw pointers), maps, replaceable memories,
//! snapshots - created, cloned and dropped in any order.  After every step the harness reads
//! /proc/self/maps and reports how many bytes of each backing file are still mapped.
use crate::util::*;
use serde_json::{json, Value};
use std::sync::Arc;
use vm_memory::mmap::MmapRegionBuilder;
use vm_memory::{
    Bytes, FileOffset, GuestAddress, GuestAddressSpace, GuestMemory, GuestMemoryAtomic, GuestMemoryLoadGuard, GuestMemoryMmap,
    GuestMemoryRegion, GuestRegionMmap,
};

type M = GuestMemoryMmap<()>;
const SIZE: usize = 0x1001; // not a page multiple: a wrong munmap length leaves a page behind
const PAGES: usize = 0x2000;
/// an owned mapping that carries the hugetlbfs hint: larger than 2 MiB and not a multiple of it (an unmap length
/// rounded to huge pages would take the neighbouring mapping with it)
const HUGE: usize = 0x20_1000;

enum Slot {
    Region(Arc<GuestRegionMmap<()>>),
    Map(M),
    Arc(Arc<M>),
    Guard(GuestMemoryLoadGuard<M>),
    Atomic(GuestMemoryAtomic<M>),
}

struct Mapping {
    len: usize,
    kind: String,
    name: String,
    raw_ptr: usize,
    _file: Arc<std::fs::File>,
}

#[derive(Default)]
pub struct OwnExec {
    slots: Vec<Option<Slot>>,
    maps: Vec<Mapping>,
    counter: usize,
}

fn skip() -> Value {
    json!({"k": "skip"})
}

impl OwnExec {
    fn mapped_bytes(&self) -> Vec<Value> {
        let txt = std::fs::read_to_string("/proc/self/maps").expect("harness: /proc/self/maps");
        self.maps
            .iter()
            .map(|m| {
                let mut bytes = 0usize;
                let mut pieces = 0;
                for line in txt.lines() {
                    if line.ends_with(&m.name) {
                        let range = line.split_whitespace().next().unwrap();
                        let (a, b) = range.split_once('-').unwrap();
                        bytes += usize::from_str_radix(b, 16).unwrap() - usize::from_str_radix(a, 16).unwrap();
                        pieces += 1;
                    }
                }
                json!({"kind": m.kind, "bytes": bytes, "pieces": pieces, "size": m.len})
            })
            .collect()
    }
    fn state(&self) -> Value {
        json!({"maps": self.mapped_bytes(), "nslots": self.slots.len()})
    }
    fn live(&self, i: usize) -> Option<&Slot> {
        if i == 0 || i > self.slots.len() {
            None
        } else {
            self.slots[i - 1].as_ref()
        }
    }
    fn cleanup(&mut self) {
        self.slots.clear();
        for m in &self.maps {
            if m.kind == "raw" {
                unsafe { libc::munmap(m.raw_ptr as *mut libc::c_void, SIZE) };
            }
            let _ = std::fs::remove_file(&m.name);
        }
        self.maps.clear();
    }
}

/// region ids reachable through a map, identified by the tag byte stored at the start of each region
fn regs_of(m: &M) -> Vec<Value> {
    m.iter()
        .map(|r| match m.read_obj::<u8>(r.start_addr()) {
            Ok(t) => json!(t),
            Err(_) => json!(999),
        })
        .collect()
}

impl Drop for OwnExec {
    fn drop(&mut self) {
        self.cleanup();
    }
}

impl Exec for OwnExec {
    fn step(&mut self, line: &Value) -> Value {
        let op = line["op"].as_str().expect("op");
        let geti = |k: &str| line["a"][k].as_u64().unwrap_or(0) as usize;
        let r = match op {
            "init" => {
                self.cleanup();
                json!({"k": "ok", "v": 0})
            }
            "create" => {
                let kind = s(line, "kind").to_string();
                self.counter += 1;
                let id = self.maps.len() + 1;
                let name = format!("/tmp/vmh-own-{}-{}", std::process::id(), self.counter);
                let f = std::fs::OpenOptions::new().read(true).write(true).create(true).truncate(true).open(&name).expect("harness: file");
                f.set_len(PAGES as u64).unwrap();
                let f = Arc::new(f);
                let mut raw_ptr = 0usize;
                if kind == "failed_build" {
                    // a file-backed request whose range lies past the end of the file: refused, and nothing may stay mapped
                    let res = MmapRegionBuilder::<()>::new(SIZE)
                        .with_file_offset(FileOffset::from_arc(f.clone(), PAGES as u64))
                        .with_mmap_prot(libc::PROT_READ | libc::PROT_WRITE)
                        .with_mmap_flags(libc::MAP_SHARED | libc::MAP_NORESERVE)
                        .build();
                    let ok = res.is_ok();
                    drop(res);
                    self.maps.push(Mapping { len: PAGES, kind, name, raw_ptr, _file: f });
                    return event(line, if ok { json!({"k": "ok", "v": 0}) } else { json!({"k": "err"}) }, self.state());
                }
                if kind == "failed_wrap" {
                    // the mapping is created, but the guest range does not fit below 2^64: the region is refused and the
                    // mapping it was given by value must go away with it
                    let region = MmapRegionBuilder::<()>::new(SIZE)
                        .with_file_offset(FileOffset::from_arc(f.clone(), 0))
                        .with_mmap_prot(libc::PROT_READ | libc::PROT_WRITE)
                        .with_mmap_flags(libc::MAP_SHARED | libc::MAP_NORESERVE)
                        .build()
                        .expect("harness: build owned");
                    let res = GuestRegionMmap::new(region, GuestAddress(u64::MAX - 0x10));
                    let ok = res.is_ok();
                    drop(res);
                    self.maps.push(Mapping { len: PAGES, kind, name, raw_ptr, _file: f });
                    return event(line, if ok { json!({"k": "ok", "v": 0}) } else { json!({"k": "err"}) }, self.state());
                }
                if kind == "owned_huge" {
                    f.set_len(HUGE as u64).unwrap();
                    let region = MmapRegionBuilder::<()>::new(HUGE)
                        .with_file_offset(FileOffset::from_arc(f.clone(), 0))
                        .with_mmap_prot(libc::PROT_READ | libc::PROT_WRITE)
                        .with_mmap_flags(libc::MAP_SHARED | libc::MAP_NORESERVE)
                        .with_hugetlbfs(true)
                        .build()
                        .expect("harness: build owned (hinted)");
                    let g = GuestRegionMmap::new(region, GuestAddress(id as u64 * 0x100_0000)).expect("harness: region");
                    g.write_obj::<u8>(id as u8, vm_memory::MemoryRegionAddress(0)).unwrap();
                    self.maps.push(Mapping { len: HUGE, kind: "owned".to_string(), name, raw_ptr, _file: f });
                    self.slots.push(Some(Slot::Region(Arc::new(g))));
                    return event(line, json!({"k": "ok", "v": self.slots.len()}), self.state());
                }
                let region = if kind == "raw" {
                    use std::os::fd::AsRawFd;
                    let p = unsafe {
                        libc::mmap(std::ptr::null_mut(), SIZE, libc::PROT_READ | libc::PROT_WRITE, libc::MAP_SHARED, f.as_raw_fd(), 0)
                    };
                    assert!(p != libc::MAP_FAILED, "harness: mmap");
                    raw_ptr = p as usize;
                    // how the caller describes its own mapping to the builder is informational only - whatever it says,
                    // a mapping handed over as a raw pointer stays the caller's: 0 = its true flags, 1 = nothing (the
                    // builder's defaults, which name an anonymous private mapping), 2 = flags and the file it maps
                    let var = line["a"]["var"].as_u64().unwrap_or(self.counter as u64) % 3;
                    let b = MmapRegionBuilder::<()>::new(SIZE).with_mmap_prot(libc::PROT_READ | libc::PROT_WRITE);
                    let b = match var {
                        0 => b.with_mmap_flags(libc::MAP_SHARED),
                        1 => b,
                        _ => b.with_mmap_flags(libc::MAP_SHARED).with_file_offset(FileOffset::from_arc(f.clone(), 0)),
                    };
                    unsafe { b.with_raw_mmap_pointer(p as *mut u8).build().expect("harness: build raw") }
                } else {
                    MmapRegionBuilder::<()>::new(SIZE)
                        .with_file_offset(FileOffset::from_arc(f.clone(), 0))
                        .with_mmap_prot(libc::PROT_READ | libc::PROT_WRITE)
                        .with_mmap_flags(libc::MAP_SHARED | libc::MAP_NORESERVE)
                        .build()
                        .expect("harness: build owned")
                };
                let g = GuestRegionMmap::new(region, GuestAddress(id as u64 * 0x100_0000)).expect("harness: region");
                g.write_obj::<u8>(id as u8, vm_memory::MemoryRegionAddress(0)).unwrap();
                self.maps.push(Mapping { len: PAGES, kind, name, raw_ptr, _file: f });
                self.slots.push(Some(Slot::Region(Arc::new(g))));
                json!({"k": "ok", "v": self.slots.len()})
            }
            "build_map" => {
                let ids: Vec<usize> = line["a"]["slots"].as_array().expect("harness: slots").iter().map(|x| x.as_u64().unwrap() as usize).collect();
                let mut v = Vec::new();
                for i in &ids {
                    match self.live(*i) {
                        Some(Slot::Region(r)) => v.push(r.clone()),
                        _ => {}
                    }
                }
                if v.len() != ids.len() || v.is_empty() {
                    skip()
                } else {
                    match GuestMemoryMmap::from_arc_regions(v) {
                        Ok(m) => {
                            self.slots.push(Some(Slot::Map(m)));
                            json!({"k": "ok", "v": self.slots.len()})
                        }
                        Err(_) => skip(),
                    }
                }
            }
            "insert" => match (self.live(geti("m")), self.live(geti("r"))) {
                (Some(Slot::Map(m)), Some(Slot::Region(r))) => match m.insert_region(r.clone()) {
                    Ok(nm) => {
                        self.slots.push(Some(Slot::Map(nm)));
                        json!({"k": "ok", "v": self.slots.len()})
                    }
                    Err(_) => skip(),
                },
                _ => skip(),
            },
            "remove" => match self.live(geti("m")) {
                Some(Slot::Map(m)) if geti("i") >= 1 && geti("i") <= m.num_regions() => {
                    let reg = m.iter().nth(geti("i") - 1).unwrap();
                    match m.remove_region(reg.start_addr(), reg.len()) {
                        Ok((nm, r)) => {
                            self.slots.push(Some(Slot::Map(nm)));
                            self.slots.push(Some(Slot::Region(r)));
                            json!({"k": "ok", "v": self.slots.len() - 1})
                        }
                        Err(_) => json!({"k": "err"}),
                    }
                }
                _ => skip(),
            },
            "clone" => match self.live(geti("s")) {
                Some(sl) => {
                    let c = match sl {
                        Slot::Region(r) => Slot::Region(r.clone()),
                        // another handle on the same memory, also through GuestAddressSpace::memory() of &M / Rc<M> / Arc<M>
                        // (via: 0 = Clone, 1 = the trait on a reference / the Arc itself, 2 = the trait on an Rc)
                        Slot::Map(m) => match line["a"]["via"].as_u64().unwrap_or(0) {
                            1 => Slot::Map(Clone::clone(GuestAddressSpace::memory(&m))),
                            2 => {
                                let rc = std::rc::Rc::new(m.clone());
                                let t = GuestAddressSpace::memory(&rc);
                                drop(rc);
                                Slot::Map((*t).clone())
                            }
                            _ => Slot::Map(m.clone()),
                        },
                        Slot::Arc(a) => match line["a"]["via"].as_u64().unwrap_or(0) {
                            0 => Slot::Arc(a.clone()),
                            _ => Slot::Arc(GuestAddressSpace::memory(a)),
                        },
                        Slot::Guard(g) => Slot::Guard(g.clone()),
                        Slot::Atomic(a) => Slot::Atomic(a.clone()),
                    };
                    self.slots.push(Some(c));
                    json!({"k": "ok", "v": self.slots.len()})
                }
                None => skip(),
            },
            "make_atomic" => match self.live(geti("m")) {
                Some(Slot::Map(m)) => {
                    let a = GuestMemoryAtomic::new(m.clone());
                    self.slots.push(Some(Slot::Atomic(a)));
                    json!({"k": "ok", "v": self.slots.len()})
                }
                _ => skip(),
            },
            "snapshot" => match self.live(geti("a")) {
                Some(Slot::Atomic(a)) => {
                    // alternate between keeping the guard and converting it into an owned Arc
                    let g = a.memory();
                    let sl = if self.slots.len() % 2 == 0 { Slot::Guard(g) } else { Slot::Arc(g.into_inner()) };
                    self.slots.push(Some(sl));
                    json!({"k": "ok", "v": self.slots.len()})
                }
                _ => skip(),
            },
            "replace" => match (self.live(geti("a")), self.live(geti("m"))) {
                (Some(Slot::Atomic(a)), Some(Slot::Map(m))) => {
                    a.lock().unwrap().replace(m.clone());
                    json!({"k": "ok", "v": 0})
                }
                _ => skip(),
            },
            "drop" => {
                let i = geti("s");
                if self.live(i).is_some() {
                    self.slots[i - 1] = None;
                    json!({"k": "ok", "v": 0})
                } else {
                    skip()
                }
            }
            "read" => match self.live(geti("s")) {
                Some(Slot::Region(r)) => {
                    let t: u8 = r.read_obj(vm_memory::MemoryRegionAddress(0)).unwrap_or(255);
                    json!({"k": "ok", "regs": [t]})
                }
                Some(Slot::Map(m)) => json!({"k": "ok", "regs": regs_of(m)}),
                Some(Slot::Arc(m)) => json!({"k": "ok", "regs": regs_of(m)}),
                Some(Slot::Guard(m)) => json!({"k": "ok", "regs": regs_of(m)}),
                Some(Slot::Atomic(a)) => json!({"k": "ok", "regs": regs_of(&a.memory())}),
                None => skip(),
            },
            o => panic!("harness: unknown ownership op {o}"),
        };
        event(line, r, self.state())
    }
}
