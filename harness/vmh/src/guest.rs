//! Executor for the GuestMem module: GuestMemoryMmap<AtomicBitmap> (anonymous or file-backed regions)
//! and a custom backend that implements only the required trait methods and inherits every
//! provided default method of GuestMemory / GuestMemoryRegion.
use crate::types::*;
use crate::util::*;
use serde_json::{json, Value};
use std::num::NonZeroUsize;
use std::os::unix::fs::FileExt;
use std::sync::atomic::Ordering;
use std::sync::Arc;
use vm_memory::bitmap::{AtomicBitmap, BS};
use vm_memory::guest_memory::Error as GErr;
use crate::mk::make_region;
use vm_memory::{
    Address, AtomicAccess, Bytes, FileOffset, GuestAddress, GuestMemory, GuestMemoryMmap, GuestMemoryRegion,
    GuestRegionMmap, GuestUsize, MemoryRegionAddress, ReadVolatile, VolatileSlice, WriteVolatile,
};

pub fn gerr(e: &GErr) -> Value {
    match e {
        GErr::InvalidGuestAddress(_) => json!({"k": "err", "e": "InvalidGuestAddress"}),
        GErr::IOError(io) => json!({"k": "err", "e": "IOError", "io": format!("{:?}", io.kind())}),
        GErr::PartialBuffer { expected, completed } => {
            json!({"k": "err", "e": "PartialBuffer", "exp": expected, "done": completed})
        }
        GErr::InvalidBackendAddress => json!({"k": "err", "e": "InvalidBackendAddress"}),
        GErr::HostAddressNotAvailable => json!({"k": "err", "e": "HostAddressNotAvailable"}),
        GErr::CallbackOutOfRange => json!({"k": "err", "e": "CallbackOutOfRange"}),
        GErr::GuestAddressOverflow => json!({"k": "err", "e": "GuestAddressOverflow"}),
    }
}

// ---------------------------------------------------------------------------------------------
// scripted streams (C14): one script element per underlying call; an exhausted script is "full"
// ---------------------------------------------------------------------------------------------
#[derive(Clone, Debug)]
pub enum Beh {
    Full,
    Short(usize),
    Zero,
    Eintr,
    Err,
}

pub fn parse_script(v: &Value) -> Vec<Beh> {
    v.as_array()
        .expect("harness: script")
        .iter()
        .map(|e| match e["b"].as_str().expect("harness: script element") {
            "full" => Beh::Full,
            "short" => Beh::Short(e["k"].as_u64().expect("harness: short k") as usize),
            "zero" => Beh::Zero,
            "eintr" => Beh::Eintr,
            "err" => Beh::Err,
            b => panic!("harness: script behaviour {b}"),
        })
        .collect()
}

pub struct ScriptedReader {
    pub script: std::collections::VecDeque<Beh>,
    pub pos: usize, // bytes handed out so far
    pub calls: usize,
}

pub struct ScriptedWriter {
    pub script: std::collections::VecDeque<Beh>,
    pub got: Vec<u8>,
    pub calls: usize,
}

fn io_err(kind: std::io::ErrorKind) -> vm_memory::VolatileMemoryError {
    vm_memory::VolatileMemoryError::IOError(std::io::Error::new(kind, "scripted"))
}

impl ReadVolatile for ScriptedReader {
    fn read_volatile<B: vm_memory::bitmap::BitmapSlice>(
        &mut self,
        buf: &mut VolatileSlice<B>,
    ) -> Result<usize, vm_memory::VolatileMemoryError> {
        self.calls += 1;
        if self.calls > 5000 {
            // a transfer that never ends is data (C07 / C14), not a harness failure
            panic!("watchdog: the stream was called 5000 times for one transfer (no progress)");
        }
        let n = match self.script.pop_front().unwrap_or(Beh::Full) {
            Beh::Full => buf.len(),
            Beh::Short(k) => k.min(buf.len()),
            Beh::Zero => 0,
            Beh::Eintr => return Err(io_err(std::io::ErrorKind::Interrupted)),
            Beh::Err => return Err(io_err(std::io::ErrorKind::Other)),
        };
        let data: Vec<u8> = (0..n).map(|j| ((self.pos + j) % 250 + 1) as u8).collect();
        buf.copy_from(&data[..]);
        self.pos += n;
        Ok(n)
    }
}

impl WriteVolatile for ScriptedWriter {
    fn write_volatile<B: vm_memory::bitmap::BitmapSlice>(
        &mut self,
        buf: &VolatileSlice<B>,
    ) -> Result<usize, vm_memory::VolatileMemoryError> {
        self.calls += 1;
        if self.calls > 5000 {
            panic!("watchdog: the stream was called 5000 times for one transfer (no progress)");
        }
        let n = match self.script.pop_front().unwrap_or(Beh::Full) {
            Beh::Full => buf.len(),
            Beh::Short(k) => k.min(buf.len()),
            Beh::Zero => 0,
            Beh::Eintr => return Err(io_err(std::io::ErrorKind::Interrupted)),
            Beh::Err => return Err(io_err(std::io::ErrorKind::Other)),
        };
        let mut tmp = vec![0u8; n];
        buf.copy_to(&mut tmp[..]);
        self.got.extend_from_slice(&tmp);
        Ok(n)
    }
}

// ---------------------------------------------------------------------------------------------
// custom backend: required methods only
// ---------------------------------------------------------------------------------------------
pub struct CRegion {
    start: u64,
    len: u64,
    store: Vec<u64>, // 8-aligned backing storage
}

impl CRegion {
    fn new(start: u64, len: u64) -> Self {
        let mut r = CRegion { start, len, store: vec![0u64; (len as usize + 7) / 8 + 1] };
        for i in 0..len as usize {
            unsafe { *r.ptr().add(i) = (i % 251 + 1) as u8 };
        }
        r
    }
    fn ptr(&self) -> *mut u8 {
        self.store.as_ptr() as *mut u8
    }
    fn vs(&self) -> VolatileSlice<'_, ()> {
        unsafe { VolatileSlice::new(self.ptr(), self.len as usize) }
    }
}

impl Bytes<MemoryRegionAddress> for CRegion {
    type E = GErr;
    fn write(&self, buf: &[u8], addr: MemoryRegionAddress) -> Result<usize, GErr> {
        self.vs().write(buf, addr.0 as usize).map_err(Into::into)
    }
    fn read(&self, buf: &mut [u8], addr: MemoryRegionAddress) -> Result<usize, GErr> {
        self.vs().read(buf, addr.0 as usize).map_err(Into::into)
    }
    fn write_slice(&self, buf: &[u8], addr: MemoryRegionAddress) -> Result<(), GErr> {
        self.vs().write_slice(buf, addr.0 as usize).map_err(Into::into)
    }
    fn read_slice(&self, buf: &mut [u8], addr: MemoryRegionAddress) -> Result<(), GErr> {
        self.vs().read_slice(buf, addr.0 as usize).map_err(Into::into)
    }
    fn read_volatile_from<F: ReadVolatile>(&self, addr: MemoryRegionAddress, src: &mut F, count: usize) -> Result<usize, GErr> {
        self.vs().read_volatile_from(addr.0 as usize, src, count).map_err(Into::into)
    }
    fn read_exact_volatile_from<F: ReadVolatile>(&self, addr: MemoryRegionAddress, src: &mut F, count: usize) -> Result<(), GErr> {
        self.vs().read_exact_volatile_from(addr.0 as usize, src, count).map_err(Into::into)
    }
    fn write_volatile_to<F: WriteVolatile>(&self, addr: MemoryRegionAddress, dst: &mut F, count: usize) -> Result<usize, GErr> {
        self.vs().write_volatile_to(addr.0 as usize, dst, count).map_err(Into::into)
    }
    fn write_all_volatile_to<F: WriteVolatile>(&self, addr: MemoryRegionAddress, dst: &mut F, count: usize) -> Result<(), GErr> {
        self.vs().write_all_volatile_to(addr.0 as usize, dst, count).map_err(Into::into)
    }
    fn store<T: AtomicAccess>(&self, val: T, addr: MemoryRegionAddress, order: Ordering) -> Result<(), GErr> {
        self.vs().store(val, addr.0 as usize, order).map_err(Into::into)
    }
    fn load<T: AtomicAccess>(&self, addr: MemoryRegionAddress, order: Ordering) -> Result<T, GErr> {
        self.vs().load(addr.0 as usize, order).map_err(Into::into)
    }
}

impl GuestMemoryRegion for CRegion {
    type B = ();
    fn len(&self) -> GuestUsize {
        self.len
    }
    fn start_addr(&self) -> GuestAddress {
        GuestAddress(self.start)
    }
    fn bitmap(&self) -> &() {
        &()
    }
    fn get_host_address(&self, addr: MemoryRegionAddress) -> Result<*mut u8, GErr> {
        self.check_address(addr).ok_or(GErr::InvalidBackendAddress).map(|a| self.ptr().wrapping_add(a.0 as usize))
    }
    fn get_slice(&self, offset: MemoryRegionAddress, count: usize) -> Result<VolatileSlice<BS<()>>, GErr> {
        use vm_memory::VolatileMemory;
        // lifetimes: the slice borrows self
        let s = unsafe { VolatileSlice::new(self.ptr(), self.len as usize) };
        let sub = s.get_slice(offset.0 as usize, count)?;
        Ok(unsafe { std::mem::transmute::<VolatileSlice<'_, ()>, VolatileSlice<'_, ()>>(sub) })
    }
}

pub struct CMem {
    regions: Vec<CRegion>,
}

impl GuestMemory for CMem {
    type R = CRegion;
    fn num_regions(&self) -> usize {
        self.regions.len()
    }
    fn find_region(&self, addr: GuestAddress) -> Option<&CRegion> {
        self.regions.iter().find(|r| addr.0 >= r.start && addr.0 - r.start < r.len)
    }
    fn iter(&self) -> impl Iterator<Item = &CRegion> {
        self.regions.iter()
    }
}

// ---------------------------------------------------------------------------------------------
// inspection of regions (harness side, not part of vm-memory)
// ---------------------------------------------------------------------------------------------
pub trait Insp {
    fn host(&self) -> *mut u8;
    fn dirty_pages(&self) -> Vec<usize>;
    fn file_bytes(&self) -> Option<Vec<u8>>;
}

impl Insp for CRegion {
    fn host(&self) -> *mut u8 {
        self.ptr()
    }
    fn dirty_pages(&self) -> Vec<usize> {
        Vec::new()
    }
    fn file_bytes(&self) -> Option<Vec<u8>> {
        None
    }
}

impl Insp for GuestRegionMmap<AtomicBitmap> {
    fn host(&self) -> *mut u8 {
        self.as_ptr()
    }
    fn dirty_pages(&self) -> Vec<usize> {
        let bm = GuestMemoryRegion::bitmap(self);
        (0..bm.len() + 70).filter(|&i| bm.is_bit_set(i)).collect()
    }
    fn file_bytes(&self) -> Option<Vec<u8>> {
        self.file_offset().map(|fo| {
            let mut v = vec![0u8; self.size()];
            fo.file().read_exact_at(&mut v, fo.start()).expect("harness: pread");
            v
        })
    }
}

enum Mem {
    Mmap(GuestMemoryMmap<AtomicBitmap>),
    Custom(CMem),
}

#[derive(Default)]
pub struct GuestExec {
    mem: Option<Mem>,
    files: Vec<std::path::PathBuf>,
}

/// A backend other than GuestMemoryMmap may iterate its regions in any order (the trait does not promise one): the
/// harness' own observations always go by guest address.
fn ordered<M: GuestMemory>(m: &M) -> Vec<&M::R> {
    let mut v: Vec<&M::R> = m.iter().collect();
    v.sort_by_key(|r| r.start_addr().0);
    v
}

pub trait Order {
    /// true for a foreign backend whose iteration order is its own business
    fn foreign_order(&self) -> bool;
}
impl Order for CMem {
    fn foreign_order(&self) -> bool {
        true
    }
}
impl<B: vm_memory::bitmap::Bitmap> Order for GuestMemoryMmap<B> {
    fn foreign_order(&self) -> bool {
        false
    }
}

fn project<M: GuestMemory>(m: &M) -> Value
where
    M::R: Insp,
{
    let regs: Vec<Value> = ordered(m)
        .into_iter()
        .map(|r| {
            let n = r.len() as usize;
            let mem: Vec<u8> = unsafe { std::slice::from_raw_parts(r.host(), n).to_vec() };
            let mut o = json!({"s": r.start_addr().0, "n": r.len(), "mem": mem, "dirty": r.dirty_pages()});
            if let Some(f) = r.file_bytes() {
                o["fmem"] = json!(f);
            }
            o
        })
        .collect();
    json!({"regs": regs})
}

fn locate<M: GuestMemory>(m: &M, p: *const u8) -> (Value, Value)
where
    M::R: Insp,
{
    for r in m.iter() {
        let h = r.host() as usize;
        if (p as usize) >= h && (p as usize) < h + (r.len() as usize).max(1) {
            return (json!(r.start_addr().0), json!(p as usize - h));
        }
    }
    (json!(u64::MAX), json!(u64::MAX))
}

fn opt_addr(o: Option<GuestAddress>) -> Value {
    match o {
        Some(a) => json!({"k": "ok", "v": a.0}),
        None => json!({"k": "none"}),
    }
}

fn opt_raddr(o: Option<MemoryRegionAddress>) -> Value {
    match o {
        Some(a) => json!({"k": "ok", "v": a.0}),
        None => json!({"k": "none"}),
    }
}

fn okv<T: Into<Value>>(v: T) -> Value {
    let v: Value = v.into();
    json!({"k": "ok", "v": v})
}

fn runit(r: Result<(), GErr>) -> Value {
    match r {
        Ok(()) => json!({"k": "ok"}),
        Err(e) => gerr(&e),
    }
}

fn run_op<M: GuestMemory + Order>(m: &M, op: &str, line: &Value) -> Value
where
    M::R: Insp,
{
    let g = |k: &str| u(line, k);
    let gu = |k: &str| us(line, k);
    let ga = |k: &str| GuestAddress(u(line, k));
    let bytes = |k: &str| -> Vec<u8> { line["a"][k].as_array().expect("harness: bytes").iter().map(|x| x.as_u64().unwrap() as u8).collect() };
    let reg = || -> &M::R { *ordered(m).get(gu("ri") - 1).expect("harness: region index") };
    match op {
        // ---------------- queries ----------------
        "find_region" => match m.find_region(ga("addr")) {
            Some(r) => json!({"k": "ok", "s": r.start_addr().0, "n": r.len()}),
            None => json!({"k": "none"}),
        },
        "to_region_addr" => match m.to_region_addr(ga("addr")) {
            Some((r, a)) => json!({"k": "ok", "s": r.start_addr().0, "off": a.0}),
            None => json!({"k": "none"}),
        },
        "address_in_range" => okv(m.address_in_range(ga("addr"))),
        "check_address" => opt_addr(m.check_address(ga("addr"))),
        "checked_offset" => opt_addr(m.checked_offset(ga("base"), gu("off"))),
        "check_range" => okv(m.check_range(ga("base"), gu("len"))),
        "last_addr" => okv(m.last_addr().0),
        "get_host_address" => match m.get_host_address(ga("addr")) {
            Ok(p) => {
                let (s, off) = locate(m, p);
                json!({"k": "ok", "s": s, "off": off})
            }
            Err(e) => gerr(&e),
        },
        "get_slice" => match m.get_slice(ga("addr"), gu("count")) {
            Ok(sl) => {
                let gd = sl.ptr_guard();
                let (s, off) = locate(m, gd.as_ptr());
                json!({"k": "ok", "s": s, "off": off, "len": sl.len()})
            }
            Err(e) => gerr(&e),
        },
        "num_regions" => okv(m.num_regions()),
        "iter" => {
            let mut v: Vec<Vec<u64>> = m.iter().map(|r| vec![r.start_addr().0, r.len()]).collect();
            if m.foreign_order() {
                v.sort();
            }
            okv(v)
        }
        // ---------------- region-level queries ----------------
        "r_last_addr" => okv(reg().last_addr().0),
        "r_address_in_range" => okv(reg().address_in_range(MemoryRegionAddress(g("addr")))),
        "r_check_address" => opt_raddr(reg().check_address(MemoryRegionAddress(g("addr")))),
        "r_checked_offset" => opt_raddr(reg().checked_offset(MemoryRegionAddress(g("base")), gu("off"))),
        "r_to_region_addr" => opt_raddr(reg().to_region_addr(ga("addr"))),
        "r_get_host_address" => match reg().get_host_address(MemoryRegionAddress(g("addr"))) {
            Ok(p) => json!({"k": "ok", "off": (p as usize).wrapping_sub(reg().host() as usize)}),
            Err(e) => gerr(&e),
        },
        "r_get_slice" => match reg().get_slice(MemoryRegionAddress(g("off")), gu("count")) {
            Ok(sl) => {
                let gd = sl.ptr_guard();
                json!({"k": "ok", "off": (gd.as_ptr() as usize).wrapping_sub(reg().host() as usize), "len": sl.len()})
            }
            Err(e) => gerr(&e),
        },
        // ---------------- Bytes<GuestAddress> ----------------
        "write" => match m.write(&bytes("buf"), ga("addr")) {
            Ok(n) => json!({"k": "ok", "n": n}),
            Err(e) => gerr(&e),
        },
        "read" => {
            let mut b = vec![0u8; gu("bl")];
            match m.read(&mut b, ga("addr")) {
                Ok(n) => json!({"k": "ok", "n": n, "data": b[..n.min(b.len())]}),
                Err(e) => gerr(&e),
            }
        }
        "write_slice" => runit(m.write_slice(&bytes("buf"), ga("addr"))),
        "read_slice" => {
            let mut b = vec![0u8; gu("bl")];
            match m.read_slice(&mut b, ga("addr")) {
                Ok(()) => json!({"k": "ok", "n": b.len(), "data": b}),
                Err(e) => gerr(&e),
            }
        }
        "write_obj" => {
            let b = bytes("buf");
            with_ty!(b.len(), T, { runit(m.write_obj::<T>(from_bytes::<T>(&b), ga("addr"))) })
        }
        "read_obj" => {
            let esz = gu("esz");
            with_ty!(esz, T, {
                match m.read_obj::<T>(ga("addr")) {
                    Ok(v) => json!({"k": "ok", "n": esz, "data": bv(&v)}),
                    Err(e) => gerr(&e),
                }
            })
        }
        "store" => {
            let b = bytes("buf");
            with_atomic_ty!(b.len(), T, { runit(m.store::<T>(from_bytes::<T>(&b), ga("addr"), Ordering::SeqCst)) })
        }
        "load" => {
            let esz = gu("esz");
            with_atomic_ty!(esz, T, {
                match m.load::<T>(ga("addr"), Ordering::SeqCst) {
                    Ok(v) => json!({"k": "ok", "n": esz, "data": bv(&v)}),
                    Err(e) => gerr(&e),
                }
            })
        }
        "read_volatile_from" => {
            let srcb = bytes("src");
            let mut rd: &[u8] = &srcb;
            match m.read_volatile_from(ga("addr"), &mut rd, gu("count")) {
                Ok(n) => json!({"k": "ok", "n": n, "left": rd.len()}),
                Err(e) => gerr(&e),
            }
        }
        "read_exact_volatile_from" => {
            let srcb = bytes("src");
            let mut rd: &[u8] = &srcb;
            runit(m.read_exact_volatile_from(ga("addr"), &mut rd, gu("count")))
        }
        "write_volatile_to" => {
            let mut sink: Vec<u8> = Vec::new();
            match m.write_volatile_to(ga("addr"), &mut sink, gu("count")) {
                Ok(n) => json!({"k": "ok", "n": n, "data": sink}),
                Err(e) => gerr(&e),
            }
        }
        "write_all_volatile_to" => {
            let mut sink: Vec<u8> = Vec::new();
            match m.write_all_volatile_to(ga("addr"), &mut sink, gu("count")) {
                Ok(()) => json!({"k": "ok", "n": sink.len(), "data": sink}),
                Err(e) => {
                    let mut v = gerr(&e);
                    v["data"] = json!(sink);
                    v
                }
            }
        }
        // ---------------- Bytes<MemoryRegionAddress> ----------------
        "r_write" => match reg().write(&bytes("buf"), MemoryRegionAddress(g("addr"))) {
            Ok(n) => json!({"k": "ok", "n": n}),
            Err(e) => gerr(&e),
        },
        "r_read" => {
            let mut b = vec![0u8; gu("bl")];
            match reg().read(&mut b, MemoryRegionAddress(g("addr"))) {
                Ok(n) => json!({"k": "ok", "n": n, "data": b[..n.min(b.len())]}),
                Err(e) => gerr(&e),
            }
        }
        "r_write_slice" => runit(reg().write_slice(&bytes("buf"), MemoryRegionAddress(g("addr")))),
        "r_read_slice" => {
            let mut b = vec![0u8; gu("bl")];
            match reg().read_slice(&mut b, MemoryRegionAddress(g("addr"))) {
                Ok(()) => json!({"k": "ok", "n": b.len(), "data": b}),
                Err(e) => gerr(&e),
            }
        }
        "r_write_obj" => {
            let b = bytes("buf");
            with_ty!(b.len(), T, { runit(reg().write_obj::<T>(from_bytes::<T>(&b), MemoryRegionAddress(g("addr")))) })
        }
        "r_read_obj" => {
            let esz = gu("esz");
            with_ty!(esz, T, {
                match reg().read_obj::<T>(MemoryRegionAddress(g("addr"))) {
                    Ok(v) => json!({"k": "ok", "n": esz, "data": bv(&v)}),
                    Err(e) => gerr(&e),
                }
            })
        }
        "r_store" => {
            let b = bytes("buf");
            with_atomic_ty!(b.len(), T, {
                runit(reg().store::<T>(from_bytes::<T>(&b), MemoryRegionAddress(g("addr")), Ordering::SeqCst))
            })
        }
        "r_load" => {
            let esz = gu("esz");
            with_atomic_ty!(esz, T, {
                match reg().load::<T>(MemoryRegionAddress(g("addr")), Ordering::SeqCst) {
                    Ok(v) => json!({"k": "ok", "n": esz, "data": bv(&v)}),
                    Err(e) => gerr(&e),
                }
            })
        }
        "r_read_volatile_from" => {
            let srcb = bytes("src");
            let mut rd: &[u8] = &srcb;
            match reg().read_volatile_from(MemoryRegionAddress(g("addr")), &mut rd, gu("count")) {
                Ok(n) => json!({"k": "ok", "n": n, "left": rd.len()}),
                Err(e) => gerr(&e),
            }
        }
        "r_write_volatile_to" => {
            let mut sink: Vec<u8> = Vec::new();
            match reg().write_volatile_to(MemoryRegionAddress(g("addr")), &mut sink, gu("count")) {
                Ok(n) => json!({"k": "ok", "n": n, "data": sink}),
                Err(e) => gerr(&e),
            }
        }
        // ---------------- the public try_access with a scripted client callback ----------------
        "try_access_cb" => {
            let script: Vec<Value> = line["a"]["script"].as_array().cloned().unwrap_or_default();
            let mut calls: Vec<Value> = Vec::new();
            let mut pos = 0usize;
            let r = m.try_access(gu("count"), ga("addr"), |total, len, start, region| {
                calls.push(json!({"total": total, "len": len, "start": start.0, "rs": region.start_addr().0}));
                let rep = script.get(pos).cloned().unwrap_or_else(|| json!({"b": "full"}));
                pos += 1;
                match rep["b"].as_str().unwrap_or("full") {
                    "full" => Ok(len),
                    "n" => Ok(rep["k"].as_u64().expect("harness: k") as usize),
                    "zero" => Ok(0),
                    _ => Err(GErr::IOError(std::io::Error::new(std::io::ErrorKind::Other, "scripted"))),
                }
            });
            match r {
                Ok(n) => json!({"k": "ok", "n": n, "calls": calls}),
                Err(e) => json!({"k": "err", "e": gerr(&e)["e"], "ek": gerr(&e)["e"], "calls": calls}),
            }
        }
        // ---------------- scripted streams (C14) ----------------
        "s_read_from" | "s_read_exact_from" | "rs_read_from" | "rs_read_exact_from" => {
            let mut rd = ScriptedReader { script: parse_script(&line["a"]["script"]).into(), pos: 0, calls: 0 };
            let mut v = match op {
                "s_read_from" => match m.read_volatile_from(ga("addr"), &mut rd, gu("count")) {
                    Ok(n) => json!({"k": "ok", "n": n}),
                    Err(e) => gerr(&e),
                },
                "s_read_exact_from" => runit(m.read_exact_volatile_from(ga("addr"), &mut rd, gu("count"))),
                "rs_read_from" => match reg().read_volatile_from(MemoryRegionAddress(g("addr")), &mut rd, gu("count")) {
                    Ok(n) => json!({"k": "ok", "n": n}),
                    Err(e) => gerr(&e),
                },
                _ => runit(reg().read_exact_volatile_from(MemoryRegionAddress(g("addr")), &mut rd, gu("count"))),
            };
            v["used"] = json!(rd.pos);
            v["calls"] = json!(rd.calls);
            v
        }
        "s_write_to" | "s_write_all_to" | "rs_write_to" | "rs_write_all_to" => {
            let mut wr = ScriptedWriter { script: parse_script(&line["a"]["script"]).into(), got: Vec::new(), calls: 0 };
            let mut v = match op {
                "s_write_to" => match m.write_volatile_to(ga("addr"), &mut wr, gu("count")) {
                    Ok(n) => json!({"k": "ok", "n": n}),
                    Err(e) => gerr(&e),
                },
                "s_write_all_to" => runit(m.write_all_volatile_to(ga("addr"), &mut wr, gu("count"))),
                "rs_write_to" => match reg().write_volatile_to(MemoryRegionAddress(g("addr")), &mut wr, gu("count")) {
                    Ok(n) => json!({"k": "ok", "n": n}),
                    Err(e) => gerr(&e),
                },
                _ => runit(reg().write_all_volatile_to(MemoryRegionAddress(g("addr")), &mut wr, gu("count"))),
            };
            v["data"] = json!(wr.got);
            v["calls"] = json!(wr.calls);
            v
        }
        _ => panic!("harness: unknown guest op {op}"),
    }
}

impl GuestExec {
    fn state(&self) -> Value {
        match self.mem.as_ref() {
            Some(Mem::Mmap(m)) => project(m),
            Some(Mem::Custom(m)) => project(m),
            None => json!({}),
        }
    }
}

impl Drop for GuestExec {
    fn drop(&mut self) {
        for f in &self.files {
            let _ = std::fs::remove_file(f);
        }
    }
}

impl Exec for GuestExec {
    fn step(&mut self, line: &Value) -> Value {
        let op = line["op"].as_str().expect("op");
        if op == "init" {
            self.mem = None;
            let be = s(line, "be").to_string();
            let p = us(line, "p");
            let lay: Vec<(u64, u64)> = line["a"]["lay"]
                .as_array()
                .expect("harness: lay")
                .iter()
                .map(|x| (x[0].as_u64().unwrap(), x[1].as_u64().unwrap()))
                .collect();
            if be == "custom" {
                let mut regions: Vec<CRegion> = lay.iter().map(|&(st, n)| CRegion::new(st, n)).collect();
                // storage (= iteration) order of the foreign backend: as given, reversed, or rotated
                match line["a"]["perm"].as_str().unwrap_or("id") {
                    "rev" => regions.reverse(),
                    "rot" if !regions.is_empty() => regions.rotate_left(1),
                    _ => {}
                }
                self.mem = Some(Mem::Custom(CMem { regions }));
            } else {
                let nz = NonZeroUsize::new(p).expect("harness: p");
                if line["a"]["via"].as_str() == Some("ranges") {
                    // the convenience constructor: ranges (and backing files) in, map out; the bitmap gets the host page size
                    assert_eq!(p, 4096, "harness: from_ranges_with_files implies the host page size");
                    let mut specs = Vec::new();
                    for (idx, &(st, n)) in lay.iter().enumerate() {
                        let file = if be == "mmapfile" {
                            let path = std::env::temp_dir().join(format!("vmh-guest-{}-{}", std::process::id(), idx));
                            let f = std::fs::OpenOptions::new().read(true).write(true).create(true).truncate(true).open(&path).expect("harness: file");
                            f.set_len(n + 4096).expect("harness: set_len");
                            self.files.push(path);
                            Some(FileOffset::from_arc(Arc::new(f), 4096))
                        } else {
                            None
                        };
                        specs.push((GuestAddress(st), n as usize, file));
                    }
                    let m = GuestMemoryMmap::<AtomicBitmap>::from_ranges_with_files(specs).expect("harness: from_ranges_with_files");
                    for r in m.iter() {
                        for i in 0..r.len() as usize {
                            unsafe { *r.as_ptr().add(i) = (i % 251 + 1) as u8 };
                        }
                    }
                    self.mem = Some(Mem::Mmap(m));
                    return event(line, json!({"k": "ok"}), self.state());
                }
                let mut regions = Vec::new();
                let mut shrunk = false;
                for (idx, &(st, n)) in lay.iter().enumerate() {
                    let file = if be == "mmapfile" {
                        let path = std::env::temp_dir().join(format!("vmh-guest-{}-{}", std::process::id(), idx));
                        let f = std::fs::OpenOptions::new().read(true).write(true).create(true).truncate(true).open(&path).expect("harness: file");
                        f.set_len(n + 4096).expect("harness: set_len");
                        self.files.push(path);
                        Some(FileOffset::from_arc(Arc::new(f), 4096))
                    } else {
                        None
                    };
                    // a region ending exactly at 2^64 is refused by the crate: it is then built one byte shorter (and the
                    // orchestrator is told); a tree that accepts it keeps it
                    let mut n = n;
                    let mr = make_region(n as usize, nz, file.clone(), st);
                    let reg = match GuestRegionMmap::new(mr, GuestAddress(st)) {
                        Ok(r) => r,
                        Err(_) if st.checked_add(n).is_none() && n >= 2 => {
                            n -= 1;
                            shrunk = true;
                            GuestRegionMmap::new(make_region(n as usize, nz, file, st), GuestAddress(st)).expect("harness: GuestRegionMmap::new")
                        }
                        Err(_) => panic!("harness: GuestRegionMmap::new"),
                    };
                    for i in 0..n as usize {
                        unsafe { *reg.as_ptr().add(i) = (i % 251 + 1) as u8 };
                    }
                    regions.push(reg);
                }
                // the collection under test may be reached through insert_region / remove_region instead of from_regions
                let via = line["a"]["via"].as_str().unwrap_or("direct");
                let m = if regions.is_empty() {
                    GuestMemoryMmap::new()
                } else if via == "insert" && regions.len() >= 2 {
                    let k = regions.len() / 2;
                    let held = Arc::new(regions.remove(k));
                    GuestMemoryMmap::from_regions(regions).expect("harness: from_regions").insert_region(held).expect("harness: insert_region")
                } else if via == "remove" && lay[0].0 >= 2 {
                    // an extra one-byte region at address 0 is built into the map and removed again
                    let extra = make_region(1, nz, None, 0);
                    regions.insert(0, GuestRegionMmap::new(extra, GuestAddress(0)).expect("harness: extra region"));
                    let (m2, _removed) = GuestMemoryMmap::from_regions(regions).expect("harness: from_regions").remove_region(GuestAddress(0), 1).expect("harness: remove_region");
                    m2
                } else {
                    GuestMemoryMmap::from_regions(regions).expect("harness: from_regions")
                };
                self.mem = Some(Mem::Mmap(m));
                if shrunk {
                    return event(line, json!({"k": "ok", "shrunk": true}), self.state());
                }
            }
            return event(line, json!({"k": "ok"}), self.state());
        }
        let r = if op == "bitmap_reset" {
            if let Some(Mem::Mmap(m)) = self.mem.as_ref() {
                for r in m.iter() {
                    GuestMemoryRegion::bitmap(r).reset();
                }
            }
            json!({"k": "ok"})
        } else {
            guarded(|| match self.mem.as_ref().expect("harness: no memory") {
                Mem::Mmap(m) => run_op(m, op, line),
                Mem::Custom(m) => run_op(m, op, line),
            })
        };
        event(line, r, self.state())
    }
}

