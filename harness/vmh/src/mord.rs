//! Mark-order exploration (C05 under concurrency): a WRITER performing tracked writes on guest memory races with a
//! MIGRATOR that fetch-and-clears the dirty bitmap and sends the pages it harvested.  Scheduling points are the atomic
//! steps on the bitmap (shim) and the primitive accesses of the byte-copy helper (hook `copy_point`); the controller
//! enumerates every ordering of them depth first (then a seeded sample).  For each schedule the log carries the
//! operations' results (what each round harvested and sent) and the final memory and bitmap; verdicts are TLC's.
use crate::mk::make_region;
use crate::sched::{Shared, St, NOT_SCHEDULED, PROBE, TID};
use crate::util::*;
use serde_json::{json, Value};
use std::num::NonZeroUsize;
use std::sync::atomic::Ordering;
use std::sync::{Arc, Condvar, Mutex};
use vm_memory::bitmap::{AtomicBitmap, Bitmap};
use vm_memory::verif::shim::set_atomic_hook;
use vm_memory::{Bytes, GuestAddress, GuestMemory, GuestMemoryMmap, GuestMemoryRegion, GuestRegionMmap, VolatileMemory};

type M = GuestMemoryMmap<AtomicBitmap>;

struct Decision {
    enabled: Vec<usize>,
    idx: usize,
}

#[derive(Default)]
pub struct MordExec;

fn run_op(gm: &M, psize: usize, op: &Value) -> Value {
    let k = op["k"].as_str().expect("harness: op kind");
    let g = |n: &str| op[n].as_u64().unwrap_or_else(|| panic!("harness: op arg {n}")) as usize;
    let res = |r: Result<(), vm_memory::GuestMemoryError>| if r.is_ok() { json!({"k": "unit"}) } else { json!({"k": "err"}) };
    match k {
        // ---- tracked writes (writer) ----
        "write" => {
            let data = vec![g("val") as u8; g("len")];
            res(gm.write_slice(&data, GuestAddress(g("addr") as u64)))
        }
        "write_obj" => match g("esz") {
            2 => res(gm.write_obj::<u16>(g("val") as u16 * 0x0101, GuestAddress(g("addr") as u64))),
            4 => res(gm.write_obj::<u32>(g("val") as u32 * 0x0101_0101, GuestAddress(g("addr") as u64))),
            8 => res(gm.write_obj::<u64>(g("val") as u64 * 0x0101_0101_0101_0101, GuestAddress(g("addr") as u64))),
            _ => res(gm.write_obj::<u8>(g("val") as u8, GuestAddress(g("addr") as u64))),
        },
        "read_from" => {
            // a stream read into memory from a byte slice (the VolatileSlice path of read_volatile_from)
            let data = vec![g("val") as u8; g("len")];
            let r = gm.read_exact_volatile_from(GuestAddress(g("addr") as u64), &mut &data[..], g("len"));
            res(r)
        }
        "slice_copy_from" => {
            // VolatileSlice::copy_from::<u8> on a sub-slice of the region
            let data = vec![g("val") as u8; g("len")];
            match gm.get_slice(GuestAddress(g("addr") as u64), g("len")) {
                Ok(s) => {
                    s.copy_from(&data);
                    json!({"k": "unit"})
                }
                Err(_) => json!({"k": "err"}),
            }
        }
        "store" => res(gm.store::<u32>(g("val") as u32 * 0x0101_0101, GuestAddress(g("addr") as u64), Ordering::SeqCst)),
        // ---- a migration round (migrator): harvest, then send what was harvested ----
        "round" => {
            let region = gm.iter().next().expect("harness: region");
            let words = region.bitmap().get_and_reset();
            let mut pages = Vec::new();
            let mut data = Vec::new();
            for (j, x) in words.iter().enumerate() {
                for b in 0..64 {
                    if x & (1u64 << b) != 0 {
                        let p = j * 64 + b;
                        let mut buf = vec![0u8; psize];
                        if gm.read_slice(&mut buf, GuestAddress((p * psize) as u64)).is_ok() {
                            pages.push(p);
                            data.push(buf);
                        }
                    }
                }
            }
            json!({"k": "round", "pages": pages, "data": data})
        }
        o => panic!("harness: unknown mark-order op {o}"),
    }
}

impl MordExec {
    fn run_once(&self, sh: &Arc<Shared>, pages: usize, psize: usize, progs: &[Vec<Value>], path: &mut Vec<Decision>, rnd: &mut Option<u64>) -> (Vec<Value>, Value) {
        let n = progs.len();
        let size = pages * psize;
        let region = make_region(size, NonZeroUsize::new(psize).unwrap(), None, 0);
        let gm: Arc<M> = Arc::new(GuestMemoryMmap::from_regions(vec![GuestRegionMmap::new(region, GuestAddress(0)).expect("harness: region")]).expect("harness: map"));
        let host = gm.iter().next().unwrap().as_ptr() as usize;
        {
            let mut st = sh.m.lock().unwrap();
            *st = St {
                parked: vec![false; n],
                done: vec![false; n],
                last_idx: vec![None; n],
                pending_begin: vec![None; n],
                holding: vec![false; n],
                copy_points: true,
                mem: (host, size),
                ..Default::default()
            };
        }
        // find the address of word 0 of the bitmap
        TID.with(|t| t.set(PROBE));
        let _ = gm.iter().next().unwrap().bitmap().dirty_at(0);
        TID.with(|t| t.set(NOT_SCHEDULED));
        {
            let mut st = sh.m.lock().unwrap();
            st.base = st.probe_addr;
        }
        let mut handles = Vec::new();
        for (tid, prog) in progs.iter().enumerate() {
            let (sh, gm, prog) = (sh.clone(), gm.clone(), prog.clone());
            handles.push(std::thread::spawn(move || {
                TID.with(|t| t.set(tid));
                for op in prog {
                    {
                        let mut st = sh.m.lock().unwrap();
                        st.pending_begin[tid] = Some(op.clone());
                        st.last_idx[tid] = None;
                    }
                    let res = guarded(|| run_op(&gm, psize, &op));
                    sh.op_returned(tid);
                    let mut st = sh.m.lock().unwrap();
                    if let Some(b) = st.pending_begin[tid].take() {
                        st.log.push(json!({"t": tid + 1, "kind": "noop", "w": 0, "arg": [], "old": [], "begin": b, "end": res}));
                    } else {
                        let idx = st.last_idx[tid].expect("harness: no last event");
                        st.log[idx]["end"] = res;
                    }
                }
                let mut st = sh.m.lock().unwrap();
                st.done[tid] = true;
                sh.cv.notify_all();
                TID.with(|t| t.set(NOT_SCHEDULED));
            }));
        }
        let mut depth = 0;
        loop {
            let mut st = sh.m.lock().unwrap();
            while !(st.turn.is_none() && (0..n).all(|t| st.parked[t] || st.done[t])) {
                st = sh.cv.wait(st).unwrap();
            }
            let enabled: Vec<usize> = (0..n).filter(|&t| st.parked[t] && !st.done[t]).collect();
            if enabled.is_empty() {
                break;
            }
            let choice = if depth < path.len() {
                if path[depth].enabled != enabled {
                    panic!("harness: nondeterministic enabled set at depth {depth}");
                }
                path[depth].enabled[path[depth].idx]
            } else {
                let idx = match rnd {
                    Some(s) => {
                        *s = s.wrapping_mul(6364136223846793005).wrapping_add(1442695040888963407);
                        ((*s >> 33) as usize) % enabled.len()
                    }
                    None => 0,
                };
                path.push(Decision { enabled: enabled.clone(), idx });
                enabled[idx]
            };
            depth += 1;
            st.turn = Some(choice);
            sh.cv.notify_all();
        }
        for h in handles {
            h.join().expect("harness: worker thread");
        }
        let log = std::mem::take(&mut sh.m.lock().unwrap().log);
        // final observation, outside any schedule
        let region = gm.iter().next().unwrap();
        let mem: Vec<u8> = unsafe { std::slice::from_raw_parts(region.as_ptr(), size).to_vec() };
        let bits: Vec<usize> = (0..pages).filter(|&p| region.bitmap().dirty_at(p * psize)).collect();
        (log, json!({"mem": mem, "bits": bits}))
    }
}

impl Exec for MordExec {
    /// one input line = one scenario; the returned value is an ARRAY of events (flattened by main)
    fn step(&mut self, line: &Value) -> Value {
        let pages = us(line, "pages");
        let psize = us(line, "psize");
        let cap = line["a"]["max_schedules"].as_u64().unwrap_or(3000) as usize;
        let seed = line["a"]["seed"].as_u64().unwrap_or(1);
        let progs: Vec<Vec<Value>> = line["a"]["threads"].as_array().expect("harness: threads").iter().map(|p| p.as_array().unwrap().clone()).collect();
        let sh = Arc::new(Shared { m: Mutex::new(St::default()), cv: Condvar::new() });
        set_atomic_hook(Some(sh.clone()));
        let mut out: Vec<Value> = Vec::new();
        let mut path: Vec<Decision> = Vec::new();
        let mut count = 0usize;
        let mut exhaustive = true;
        let mut emit = |out: &mut Vec<Value>, count: usize, log: Vec<Value>, fin: Value| {
            out.push(json!({"op": "init", "a": {"pages": pages, "psize": psize, "threads": line["a"]["threads"], "sched": count,
                                               "order": log.iter().map(|e| e["t"].clone()).collect::<Vec<_>>()}}));
            for e in log {
                out.push(json!({"op": "step", "a": e}));
            }
            out.push(json!({"op": "final", "a": fin}));
        };
        loop {
            let mut no_rnd = None;
            let (log, fin) = self.run_once(&sh, pages, psize, &progs, &mut path, &mut no_rnd);
            count += 1;
            emit(&mut out, count, log, fin);
            while let Some(d) = path.last_mut() {
                if d.idx + 1 < d.enabled.len() {
                    d.idx += 1;
                    break;
                }
                path.pop();
            }
            if path.is_empty() {
                break;
            }
            if count >= cap {
                exhaustive = false;
                break;
            }
        }
        if !exhaustive {
            let mut s = Some(seed);
            for _ in 0..cap / 2 {
                let mut p: Vec<Decision> = Vec::new();
                let (log, fin) = self.run_once(&sh, pages, psize, &progs, &mut p, &mut s);
                count += 1;
                emit(&mut out, count, log, fin);
            }
        }
        set_atomic_hook(None);
        out.push(json!({"op": "summary", "a": {"schedules": count, "exhaustive": exhaustive}}));
        Value::Array(out)
    }
}
