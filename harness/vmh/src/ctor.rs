//! Executor for XenCtor, standard build (C15): MmapRegionBuilder::build / build_raw and the convenience
//! constructors, over sizes / file lengths / offsets around end-of-file and overflow, MAP_FIXED, and
//! misaligned raw pointers; after a failed construction /proc/self/maps must not mention the file.
use crate::util::*;
use serde_json::{json, Value};
use std::os::unix::fs::FileExt;
use vm_memory::mmap::{MmapRegionBuilder, MmapRegionError};
use vm_memory::{Bytes, FileOffset, GuestAddress, GuestMemoryRegion, GuestRegionMmap, MemoryRegionAddress, MmapRegion};

#[derive(Default)]
pub struct CtorExec {
    n: usize,
}

fn mapped_bytes_of(name: &str) -> usize {
    let txt = std::fs::read_to_string("/proc/self/maps").expect("harness: /proc/self/maps");
    let mut bytes = 0;
    for line in txt.lines() {
        if line.ends_with(name) {
            let range = line.split_whitespace().next().unwrap();
            let (a, b) = range.split_once('-').unwrap();
            bytes += usize::from_str_radix(b, 16).unwrap() - usize::from_str_radix(a, 16).unwrap();
        }
    }
    bytes
}

fn err_name(e: &MmapRegionError) -> &'static str {
    match e {
        MmapRegionError::InvalidOffsetLength => "InvalidOffsetLength",
        MmapRegionError::InvalidPointer => "InvalidPointer",
        MmapRegionError::MapFixed => "MapFixed",
        MmapRegionError::MappingOverlap => "MappingOverlap",
        MmapRegionError::MappingPastEof => "MappingPastEof",
        MmapRegionError::Mmap(_) => "Mmap",
        MmapRegionError::SeekEnd(_) => "SeekEnd",
        MmapRegionError::SeekStart(_) => "SeekStart",
    }
}

impl Exec for CtorExec {
    fn step(&mut self, line: &Value) -> Value {
        if line["op"] == "race" {
            // several threads create file-backed regions over ONE open file at the same time (a memfd backing several guest
            // regions): every request lies inside the file, so every one must be accepted whatever the interleaving
            self.n += 1;
            let name = format!("/tmp/vmh-ctor-{}-{}", std::process::id(), self.n);
            let f = std::fs::OpenOptions::new().read(true).write(true).create(true).truncate(true).open(&name).expect("harness: file");
            f.set_len(4 * 4096).unwrap();
            let _ = std::fs::remove_file(&name);
            let f = std::sync::Arc::new(f);
            let threads = us(line, "threads");
            let rounds = us(line, "rounds");
            let handles: Vec<_> = (0..threads)
                .map(|t| {
                    let f = f.clone();
                    std::thread::spawn(move || {
                        let mut refused = 0usize;
                        for i in 0..rounds {
                            let off = ((t + i) % 4) as u64 * 4096;
                            if MmapRegion::<()>::from_file(FileOffset::from_arc(f.clone(), off), 4096).is_err() {
                                refused += 1;
                            }
                        }
                        refused
                    })
                })
                .collect();
            let refused: usize = handles.into_iter().map(|h| h.join().unwrap_or(usize::MAX / 8)).sum();
            return json!({"op": "race", "a": line["a"], "r": {"k": "ok", "refused": refused}});
        }
        if line["op"] == "wrap" {
            // a file-backed mapping given a guest range: GuestRegionMmap::new(mapping, base)
            self.n += 1;
            let size = us(line, "size");
            let gbase = u(line, "gbase");
            let name = format!("/tmp/vmh-ctor-{}-{}", std::process::id(), self.n);
            let f = std::fs::OpenOptions::new().read(true).write(true).create(true).truncate(true).open(&name).expect("harness: file");
            f.set_len(3 * 4096).unwrap();
            let before = mapped_bytes_of(&name);
            let mut r = guarded(|| {
                let region = MmapRegionBuilder::<()>::new(size)
                    .with_file_offset(FileOffset::new(f.try_clone().expect("harness: dup"), 0))
                    .with_mmap_prot(libc::PROT_READ | libc::PROT_WRITE)
                    .with_mmap_flags(libc::MAP_SHARED | libc::MAP_NORESERVE)
                    .build()
                    .expect("harness: build");
                let mapped = mapped_bytes_of(&name);
                let res = match line["a"]["api"].as_str().unwrap_or("new") {
                    // the convenience constructors create the mapping themselves
                    "from_range_file" => {
                        drop(region);
                        GuestRegionMmap::<()>::from_range(GuestAddress(gbase), size, Some(FileOffset::new(f.try_clone().expect("harness: dup"), 0)))
                    }
                    "from_range_anon" => {
                        drop(region);
                        GuestRegionMmap::<()>::from_range(GuestAddress(gbase), size, None)
                    }
                    _ => GuestRegionMmap::new(region, GuestAddress(gbase)),
                };
                match res {
                    Ok(g) => json!({"k": "ok", "start": g.start_addr().0, "len": g.len(), "last": g.last_addr().0, "mapped": mapped}),
                    Err(_) => json!({"k": "err", "e": "InvalidGuestRegion"}),
                }
            });
            r["left_mapped"] = json!(mapped_bytes_of(&name).saturating_sub(before));
            let _ = std::fs::remove_file(&name);
            return json!({"op": "wrap", "a": line["a"], "r": r});
        }
        self.n += 1;
        let kind = s(line, "kind").to_string();
        let api = line["a"]["api"].as_str().unwrap_or("builder").to_string();
        let size = us(line, "size");
        let flen = u(line, "flen");
        let foff = u(line, "foff");
        let fixed = line["a"]["fixed"].as_bool().unwrap_or(false);
        let misalign = line["a"]["misalign"].as_u64().unwrap_or(0) as usize;
        let name = format!("/tmp/vmh-ctor-{}-{}", std::process::id(), self.n);
        let f = std::fs::OpenOptions::new().read(true).write(true).create(true).truncate(true).open(&name).expect("harness: file");
        f.set_len(flen).unwrap();
        let f = std::sync::Arc::new(f);
        let prot = libc::PROT_READ | libc::PROT_WRITE;
        let mut flags = if kind == "file" { libc::MAP_SHARED | libc::MAP_NORESERVE } else { libc::MAP_ANONYMOUS | libc::MAP_PRIVATE };
        if fixed {
            flags |= libc::MAP_FIXED;
        }
        // an externally provided mapping for the raw rows
        let raw_len = 3 * 4096;
        let raw = unsafe { libc::mmap(std::ptr::null_mut(), raw_len, prot, libc::MAP_ANONYMOUS | libc::MAP_PRIVATE, -1, 0) } as *mut u8;
        let before = mapped_bytes_of(&name);
        let mut r = guarded(|| {
            let res: Result<MmapRegion<()>, MmapRegionError> = match (kind.as_str(), api.as_str()) {
                ("raw", "build_raw") => unsafe { MmapRegion::<()>::build_raw(raw.add(misalign), size.min(8192), prot, flags) },
                ("raw", _) => unsafe {
                    MmapRegionBuilder::<()>::new(size.min(8192)).with_raw_mmap_pointer(raw.add(misalign)).with_mmap_prot(prot).with_mmap_flags(flags).build()
                },
                ("file", "from_file") if !fixed => MmapRegion::<()>::from_file(FileOffset::from_arc(f.clone(), foff), size),
                ("file", "build") => MmapRegion::<()>::build(Some(FileOffset::from_arc(f.clone(), foff)), size, prot, flags),
                ("file", _) => {
                    let mut b = MmapRegionBuilder::<()>::new(size).with_file_offset(FileOffset::from_arc(f.clone(), foff)).with_mmap_prot(prot).with_mmap_flags(flags);
                    // the hugetlbfs attribute is a hint carried along: it must not change which requests are accepted
                    if let Some(h) = line["a"]["huge"].as_bool() {
                        b = b.with_hugetlbfs(h);
                    }
                    b.build()
                }
                ("anon", "new") if !fixed => MmapRegion::<()>::new(size),
                ("anon", "build") => MmapRegion::<()>::build(None, size, prot, flags),
                _ => MmapRegionBuilder::<()>::new(size).with_mmap_prot(prot).with_mmap_flags(flags).build(),
            };
            match res {
                Ok(region) => {
                    let mut v = json!({"k": "ok", "size": region.size(), "prot": region.prot(), "flags": region.flags(), "owned": region.owned(), "huge": region.is_hugetlbfs().map(|b| b as u32).unwrap_or(2),
                                       "has_file": region.file_offset().is_some(), "foff": region.file_offset().map(|x| x.start()).unwrap_or(0),
                                       "req_prot": prot, "req_flags": if (kind.as_str(), api.as_str()) == ("file", "from_file") { libc::MAP_SHARED | libc::MAP_NORESERVE }
                                                                   else if (kind.as_str(), api.as_str()) == ("anon", "new") { libc::MAP_ANONYMOUS | libc::MAP_PRIVATE | libc::MAP_NORESERVE }
                                                                   else { flags },
                                       "mapped": mapped_bytes_of(&name)});
                    if kind == "file" && size > 0 {
                        let gr = GuestRegionMmap::new(region, GuestAddress(0)).expect("harness: region");
                        let mut coh = true;
                        for i in [0u64, (size as u64 - 1) / 2, size as u64 - 1] {
                            let val = (i % 200) as u8 + 17;
                            coh &= gr.write_obj::<u8>(val, MemoryRegionAddress(i)).is_ok();
                            let mut b = [0u8; 1];
                            coh &= f.read_at(&mut b, foff + i).unwrap_or(0) == 1 && b[0] == val;
                            coh &= f.write_at(&[val ^ 0x5a], foff + i).is_ok();
                            coh &= matches!(gr.read_obj::<u8>(MemoryRegionAddress(i)), Ok(x) if x == val ^ 0x5a);
                        }
                        v["coherent"] = json!(coh);
                    }
                    v
                }
                Err(e) => json!({"k": "err", "e": err_name(&e)}),
            }
        });
        r["left_mapped"] = json!(mapped_bytes_of(&name).saturating_sub(before));
        // a raw mapping must never be unmapped by the library: it must still be readable here
        let raw_alive = {
            let mut vec = [0u8; 3];
            unsafe { libc::mincore(raw as *mut libc::c_void, raw_len, vec.as_mut_ptr()) == 0 }
        };
        r["raw_alive"] = json!(raw_alive);
        unsafe { libc::munmap(raw as *mut libc::c_void, raw_len) };
        let _ = std::fs::remove_file(&name);
        json!({"op": "build", "a": line["a"], "r": r})
    }
}
