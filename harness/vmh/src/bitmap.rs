//! Executor for the Bitmap module (C09): AtomicBitmap, Option<AtomicBitmap>, RefSlice, ArcSlice.
use crate::util::*;
use serde_json::{json, Value};
use std::num::NonZeroUsize;
use std::sync::Arc;
use vm_memory::bitmap::{ArcSlice, AtomicBitmap, Bitmap, NewBitmap};

enum Bm {
    Atomic(AtomicBitmap),
    Opt(Option<AtomicBitmap>),
    /// Arc-held bitmap; slices are ArcSlice
    Arc(Arc<AtomicBitmap>),
    /// the untracked flavours of the trait: `None` of Option<B> and `()`
    OptNone(Option<AtomicBitmap>),
    Unit(()),
}

impl Bm {
    fn ab(&self) -> &AtomicBitmap {
        match self {
            Bm::Atomic(b) => b,
            Bm::Opt(b) => b.as_ref().unwrap(),
            Bm::Arc(b) => b,
            _ => panic!("harness: inherent operation on an untracked bitmap"),
        }
    }
    fn tracked(&self) -> bool {
        !matches!(self, Bm::OptNone(_) | Bm::Unit(_))
    }
    fn deep_clone(&self) -> Bm {
        match self {
            Bm::Atomic(b) => Bm::Atomic(b.clone()),
            Bm::Opt(b) => Bm::Opt(b.clone()),
            Bm::Arc(b) => Bm::Arc(Arc::new(b.as_ref().clone())),
            Bm::OptNone(b) => Bm::OptNone(b.clone()),
            #[allow(clippy::unit_arg, clippy::clone_on_copy)]
            Bm::Unit(b) => Bm::Unit(b.clone()),
        }
    }
    fn mark_dirty(&self, off: usize, len: usize) {
        match self {
            Bm::Atomic(b) => b.mark_dirty(off, len),
            Bm::Opt(b) => b.mark_dirty(off, len),
            Bm::Arc(b) => b.mark_dirty(off, len),
            Bm::OptNone(b) => b.mark_dirty(off, len),
            Bm::Unit(b) => b.mark_dirty(off, len),
        }
    }
    fn dirty_at(&self, off: usize) -> bool {
        match self {
            Bm::Atomic(b) => b.dirty_at(off),
            Bm::Opt(b) => b.dirty_at(off),
            Bm::Arc(b) => b.dirty_at(off),
            Bm::OptNone(b) => b.dirty_at(off),
            Bm::Unit(b) => b.dirty_at(off),
        }
    }
    fn slice_mark(&self, b1: usize, b2: usize, off: usize, len: usize) {
        match self {
            Bm::Atomic(b) => b.slice_at(b1).slice_at(b2).mark_dirty(off, len),
            Bm::Opt(b) => b.slice_at(b1).slice_at(b2).mark_dirty(off, len),
            Bm::Arc(b) => ArcSlice::new(b.clone(), b1).slice_at(b2).mark_dirty(off, len),
            Bm::OptNone(b) => b.slice_at(b1).slice_at(b2).mark_dirty(off, len),
            Bm::Unit(b) => b.slice_at(b1).slice_at(b2).mark_dirty(off, len),
        }
    }
    fn slice_dirty_at(&self, b1: usize, b2: usize, off: usize) -> bool {
        match self {
            Bm::Atomic(b) => b.slice_at(b1).slice_at(b2).dirty_at(off),
            Bm::Opt(b) => b.slice_at(b1).slice_at(b2).dirty_at(off),
            Bm::Arc(b) => ArcSlice::new(b.clone(), b1).slice_at(b2).dirty_at(off),
            Bm::OptNone(b) => b.slice_at(b1).slice_at(b2).dirty_at(off),
            Bm::Unit(b) => b.slice_at(b1).slice_at(b2).dirty_at(off),
        }
    }
}

#[derive(Default)]
pub struct BitmapExec {
    bm: Vec<Option<Bm>>,
    ps: usize,
}

/// Project one bitmap: len, byte_size, every set bit in 0..len+70, and is_addr_set probes
/// around every page boundary (capped to the first and last 48 pages).
fn project(b: &AtomicBitmap, ps: usize) -> Value {
    let n = b.len();
    let bits: Vec<usize> = (0..n.saturating_add(70)).filter(|&i| b.is_bit_set(i)).collect();
    let mut aset = Vec::new();
    let mut aclr = Vec::new();
    let mut pages: Vec<usize> = (0..n.saturating_add(2)).collect();
    if pages.len() > 100 {
        let tail = pages.split_off(pages.len() - 50);
        pages.truncate(50);
        pages.extend(tail);
    }
    for p in pages {
        if let Some(base) = p.checked_mul(ps) {
            for a in [base, base.saturating_add(ps - 1)] {
                if b.is_addr_set(a) {
                    aset.push(a)
                } else {
                    aclr.push(a)
                }
            }
        }
    }
    aset.dedup();
    aclr.dedup();
    json!({"live": true, "tr": true, "ps": ps, "len": n, "bsz": b.byte_size(), "bits": bits, "aset": aset, "aclr": aclr})
}

/// Projection of an untracked bitmap: it has no size and no bits; what can be observed is dirty_at (directly and
/// through slices) at boundary-biased offsets - every one of them must answer "clean".
fn project_untracked(b: &Bm, ps: usize) -> Value {
    let mut aset = Vec::new();
    let mut aclr = Vec::new();
    let probes = [0usize, 1, ps - 1, ps, ps + 1, 63 * ps, 64 * ps, 65 * ps, 4096, usize::MAX / 2, usize::MAX - 1, usize::MAX];
    for &a in &probes {
        let direct = b.dirty_at(a);
        let sliced = b.slice_dirty_at(a, 0, 0) || b.slice_dirty_at(0, a, 0) || b.slice_dirty_at(1, 1, a.saturating_sub(2));
        if direct || sliced {
            aset.push(a)
        } else {
            aclr.push(a)
        }
    }
    json!({"live": true, "tr": false, "ps": ps, "len": 0, "bsz": 0, "bits": [], "aset": aset, "aclr": aclr})
}

impl BitmapExec {
    fn state(&self) -> Value {
        let v: Vec<Value> = self
            .bm
            .iter()
            .map(|b| match b {
                Some(b) if b.tracked() => project(b.ab(), self.ps),
                Some(b) => project_untracked(b, self.ps),
                None => json!({"live": false}),
            })
            .collect();
        json!({"bm": v})
    }
    fn h(&self, line: &Value) -> &Bm {
        let h = us(line, "h");
        self.bm[h - 1].as_ref().unwrap_or_else(|| panic!("harness: dead handle {h}"))
    }
}

impl Exec for BitmapExec {
    fn step(&mut self, line: &Value) -> Value {
        let op = line["op"].as_str().expect("op");
        let r = match op {
            "init" => {
                let bs = us(line, "bs");
                let ps = us(line, "ps");
                let fl = line["a"]["fl"].as_str().unwrap_or("atomic");
                self.ps = ps;
                // how the object is made: new(bs, ps) | NewBitmap::with_len(bs) (host page size) | Default (0 bytes, 4 KiB pages)
                let via = line["a"]["via"].as_str().unwrap_or("new");
                if fl == "optnone" || fl == "unit" {
                    let b = match (fl, via) {
                        ("unit", "with_len") => Bm::Unit(<() as NewBitmap>::with_len(bs)),
                        ("unit", _) => Bm::Unit(()),
                        (_, "default") => Bm::OptNone(Option::<AtomicBitmap>::default()),
                        _ => Bm::OptNone(None),
                    };
                    self.bm = vec![Some(b), None];
                    return event(line, unit(), self.state());
                }
                let mk = || match via {
                    "with_len" => AtomicBitmap::with_len(bs),
                    "default" => AtomicBitmap::default(),
                    _ => AtomicBitmap::new(bs, NonZeroUsize::new(ps).expect("harness: ps = 0")),
                };
                let ab = mk();
                let b = match fl {
                    "atomic" => Bm::Atomic(ab),
                    "opt" => Bm::Opt(Some(ab)),
                    "arc" => Bm::Arc(Arc::new(ab)),
                    _ => panic!("harness: flavour {fl}"),
                };
                self.bm = vec![Some(b), None];
                unit()
            }
            "enlarge" => {
                let h = us(line, "h");
                let add = us(line, "add");
                let slot = self.bm[h - 1].as_mut().unwrap();
                guarded(|| {
                    match slot {
                        Bm::Atomic(b) => b.enlarge(add),
                        Bm::Opt(b) => b.as_mut().unwrap().enlarge(add),
                        Bm::Arc(b) => Arc::get_mut(b).expect("harness: arc shared").enlarge(add),
                        _ => panic!("harness: enlarge on an untracked bitmap"),
                    }
                    unit()
                })
            }
            "clone" => {
                let c = unit();
                let src = self.h(line).deep_clone();
                self.bm[1] = Some(src);
                c
            }
            _ => {
                let b = self.h(line);
                guarded(|| match op {
                    "set_range" => {
                        b.ab().set_addr_range(us(line, "s"), us(line, "l"));
                        unit()
                    }
                    "reset_range" => {
                        b.ab().reset_addr_range(us(line, "s"), us(line, "l"));
                        unit()
                    }
                    "set_bit" => {
                        b.ab().set_bit(us(line, "i"));
                        unit()
                    }
                    "reset_bit" => {
                        b.ab().reset_bit(us(line, "i"));
                        unit()
                    }
                    "get_and_reset" => {
                        let w = b.ab().get_and_reset();
                        let mut pages = Vec::new();
                        for (j, x) in w.iter().enumerate() {
                            for k in 0..64 {
                                if x & (1u64 << k) != 0 {
                                    pages.push(j * 64 + k);
                                }
                            }
                        }
                        json!({"k": "pages", "pages": pages, "words": w.len()})
                    }
                    "reset" => {
                        b.ab().reset();
                        unit()
                    }
                    "is_bit_set" => boolv(b.ab().is_bit_set(us(line, "i"))),
                    "is_addr_set" => boolv(b.ab().is_addr_set(us(line, "addr"))),
                    "mark_dirty" => {
                        b.mark_dirty(us(line, "s"), us(line, "l"));
                        unit()
                    }
                    "dirty_at" => boolv(b.dirty_at(us(line, "addr"))),
                    "slice_mark" => {
                        b.slice_mark(us(line, "b1"), us(line, "b2"), us(line, "off"), us(line, "l"));
                        unit()
                    }
                    "slice_dirty_at" => {
                        boolv(b.slice_dirty_at(us(line, "b1"), us(line, "b2"), us(line, "off")))
                    }
                    _ => panic!("harness: unknown bitmap op {op}"),
                })
            }
        };
        event(line, r, self.state())
    }
}
