//! Executor for Endian (C20): the eight wrapper types. One record per (type, value, other value).
use crate::util::*;
use serde_json::{json, Value};
use vm_memory::{Be16, Be32, Be64, BeSize, ByteValued, Bytes, Le16, Le32, Le64, LeSize, VolatileSlice};

#[derive(Default)]
pub struct EndianExec;

fn digits(v: &Value) -> Vec<u8> {
    v.as_array().expect("harness: digits").iter().map(|x| x.as_u64().unwrap() as u8).collect()
}

macro_rules! record {
    ($W:ty, $N:ty, $v:expr, $w:expr) => {{
        // digits are most-significant first
        let mut nb = [0u8; std::mem::size_of::<$N>()];
        nb.copy_from_slice(&$v);
        let v: $N = <$N>::from_be_bytes(nb);
        nb.copy_from_slice(&$w);
        let w: $N = <$N>::from_be_bytes(nb);
        let x: $W = <$W>::from(v);
        let native: $N = x.to_native();
        let via_into: $N = x.into();
        let mut buf = [0xAAu8; 24];
        let back: $N = {
            let vs = VolatileSlice::from(&mut buf[..]);
            vs.write_obj(x, 3).expect("harness: write_obj");
            let y: $W = vs.read_obj(3).expect("harness: read_obj");
            y.to_native()
        };
        json!({
            "mem": ByteValued::as_slice(&x),
            "native": native.to_be_bytes(),
            "into": via_into.to_be_bytes(),
            "eq_self": x == v, "eq_self_rev": v == x,
            "eq_other": x == w, "eq_other_rev": w == x,
            // the operators, not only the trait's eq: `!=` may be overridden separately
            "ne_self": x != v, "ne_self_rev": v != x,
            "ne_other": x != w, "ne_other_rev": w != x,
            "size": std::mem::size_of::<$W>(), "align": std::mem::align_of::<$W>(),
            "nsize": std::mem::size_of::<$N>(), "nalign": std::mem::align_of::<$N>(),
            "vs": buf[3..3 + std::mem::size_of::<$N>()],
            "back": back.to_be_bytes(),
        })
    }};
}

impl Exec for EndianExec {
    fn step(&mut self, line: &Value) -> Value {
        let ty = s(line, "ty");
        let v = digits(&line["a"]["v"]);
        let w = digits(&line["a"]["w"]);
        let r = guarded(|| match ty {
            "Le16" => record!(Le16, u16, v, w),
            "Be16" => record!(Be16, u16, v, w),
            "Le32" => record!(Le32, u32, v, w),
            "Be32" => record!(Be32, u32, v, w),
            "Le64" => record!(Le64, u64, v, w),
            "Be64" => record!(Be64, u64, v, w),
            "LeSize" => record!(LeSize, usize, v, w),
            "BeSize" => record!(BeSize, usize, v, w),
            t => panic!("harness: unknown endian type {t}"),
        });
        json!({"op": "endian", "a": line["a"], "r": r, "host": if cfg!(target_endian = "little") { "le" } else { "be" }})
    }
}
