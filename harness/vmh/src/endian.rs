//! Executor for Endian (C20): the eight wrapper types. One record per (type, value, other value).
use crate::util::*;
use serde_json::{json, Value};
use vm_memory::{
    Be16, Be32, Be64, BeSize, ByteValued, Bytes, GuestAddress, GuestMemory, GuestMemoryMmap, Le16, Le32, Le64, LeSize, VolatileMemory,
    VolatileSlice,
};

/// guest memory whose second region is a single byte: an object stored one byte before it is split over up to three regions
pub struct EndianExec {
    gm: GuestMemoryMmap<()>,
}

impl Default for EndianExec {
    fn default() -> Self {
        let gm = GuestMemoryMmap::<()>::from_ranges(&[(GuestAddress(0), 0x1000), (GuestAddress(0x1000), 1), (GuestAddress(0x1001), 0x1000)])
            .expect("harness: guest memory");
        EndianExec { gm }
    }
}

fn digits(v: &Value) -> Vec<u8> {
    v.as_array().expect("harness: digits").iter().map(|x| x.as_u64().unwrap() as u8).collect()
}

macro_rules! record {
    ($gm:expr, $W:ty, $N:ty, $v:expr, $w:expr) => {{
        // digits are most-significant first
        let mut nb = [0u8; std::mem::size_of::<$N>()];
        nb.copy_from_slice(&$v);
        let v: $N = <$N>::from_be_bytes(nb);
        nb.copy_from_slice(&$w);
        let w: $N = <$N>::from_be_bytes(nb);
        let x: $W = <$W>::from(v);
        let native: $N = x.to_native();
        let via_into: $N = x.into();
        let mut buf = [0xAAu8; 24];
        let back: $N = {
            let vs = VolatileSlice::from(&mut buf[..]);
            vs.write_obj(x, 3).expect("harness: write_obj");
            let y: $W = vs.read_obj(3).expect("harness: read_obj");
            y.to_native()
        };
        // into guest memory across region boundaries, then the raw bytes address by address through the host pointers
        const SZ: usize = std::mem::size_of::<$N>();
        let at = 0x1000u64 - 1;
        $gm.write_obj(x, GuestAddress(at)).expect("harness: guest write_obj");
        let gmb: Vec<u8> = (0..SZ as u64)
            .map(|i| unsafe { *$gm.get_host_address(GuestAddress(at + i)).expect("harness: host address") })
            .collect();
        // a table of three wrappers moved inside guest memory with the slice-to-slice copy
        let mut tbuf = [0u8; 3 * SZ + 2];
        let mut dbuf = [0x55u8; 3 * SZ + 2];
        let arrb: Vec<u8> = {
            let ts = VolatileSlice::from(&mut tbuf[..]);
            let ds = VolatileSlice::from(&mut dbuf[..]);
            let arr = ts.get_array_ref::<$W>(1, 3).expect("harness: array");
            for i in 0..3 {
                arr.store(i, x);
            }
            arr.copy_to_volatile_slice(ds.subslice(1, 3 * SZ).expect("harness: subslice"));
            let mut o = vec![0u8; 3 * SZ + 2];
            ds.read_slice(&mut o, 0).expect("harness: read");
            o
        };
        // the element-wise slice copies on a slice that starts at an odd host address: wire bytes from its first byte on
        let mut cbuf = [0x55u8; 3 * SZ + 4];
        let cfb: Vec<u8> = {
            let whole = VolatileSlice::from(&mut cbuf[..]);
            let base_odd = (whole.ptr_guard().as_ptr() as usize) % 2;
            let s = whole.subslice(2 - base_odd + 1, 3 * SZ).expect("harness: subslice"); // an odd address
            s.copy_from(&[x, x, x]);
            let mut back = [<$W>::from(0 as $N); 3];
            let got = s.copy_to(&mut back);
            let mut o = vec![0u8; 3 * SZ];
            s.read_slice(&mut o, 0).expect("harness: read");
            if got != 3 || back.iter().any(|b| b.to_native() != v) {
                o[0] ^= 0xff; // the round trip through copy_to is part of the record: a wrong one spoils the bytes
            }
            o
        };
        let vbb: Vec<u8> = {
            let mut xm = x;
            let view = ByteValued::as_bytes(&mut xm);
            let mut o = vec![0u8; view.len()];
            view.read_slice(&mut o, 0).expect("harness: read through as_bytes");
            o
        };
        json!({
            "gm": gmb, "arr": arrb, "cf": cfb,
            "mem": ByteValued::as_slice(&x),
            // the volatile view of the object itself (ByteValued::as_bytes): exactly the object's bytes, nothing more
            "vb": vbb,
            "native": native.to_be_bytes(),
            "into": via_into.to_be_bytes(),
            "eq_self": x == v, "eq_self_rev": v == x,
            "eq_other": x == w, "eq_other_rev": w == x,
            // the operators, not only the trait's eq: `!=` may be overridden separately
            "ne_self": x != v, "ne_self_rev": v != x,
            "ne_other": x != w, "ne_other_rev": w != x,
            "size": std::mem::size_of::<$W>(), "align": std::mem::align_of::<$W>(),
            "nsize": std::mem::size_of::<$N>(), "nalign": std::mem::align_of::<$N>(),
            "vs": buf[3..3 + std::mem::size_of::<$N>()],
            "back": back.to_be_bytes(),
        })
    }};
}

impl Exec for EndianExec {
    fn step(&mut self, line: &Value) -> Value {
        let ty = s(line, "ty");
        let v = digits(&line["a"]["v"]);
        let w = digits(&line["a"]["w"]);
        let r = guarded(|| match ty {
            "Le16" => record!(self.gm, Le16, u16, v, w),
            "Be16" => record!(self.gm, Be16, u16, v, w),
            "Le32" => record!(self.gm, Le32, u32, v, w),
            "Be32" => record!(self.gm, Be32, u32, v, w),
            "Le64" => record!(self.gm, Le64, u64, v, w),
            "Be64" => record!(self.gm, Be64, u64, v, w),
            "LeSize" => record!(self.gm, LeSize, usize, v, w),
            "BeSize" => record!(self.gm, BeSize, usize, v, w),
            t => panic!("harness: unknown endian type {t}"),
        });
        json!({"op": "endian", "a": line["a"], "r": r, "host": if cfg!(target_endian = "little") { "le" } else { "be" }})
    }
}
