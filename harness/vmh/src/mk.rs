//! Region construction for the standard build: MmapRegionBuilder with a bitmap of the page size under test.
use std::num::NonZeroUsize;
use vm_memory::bitmap::AtomicBitmap;
use vm_memory::mmap::MmapRegionBuilder;
use vm_memory::{FileOffset, MmapRegion};

pub fn make_region(n: usize, page: NonZeroUsize, file: Option<FileOffset>, _guest_base: u64) -> MmapRegion<AtomicBitmap> {
    let mut b = MmapRegionBuilder::new_with_bitmap(n, AtomicBitmap::new(n, page)).with_mmap_prot(libc::PROT_READ | libc::PROT_WRITE);
    b = match file {
        Some(fo) => b.with_file_offset(fo).with_mmap_flags(libc::MAP_SHARED | libc::MAP_NORESERVE),
        None => b.with_mmap_flags(libc::MAP_ANONYMOUS | libc::MAP_PRIVATE | libc::MAP_NORESERVE),
    };
    b.build().expect("harness: build region")
}
