//! Executor for System: region objects, maps, replaceable memories, snapshots and client handles living
//! together.  After every step the whole observable state is projected: for every live handle the region
//! objects it reaches (identified by the host address of their mapping), their bytes and dirty pages read
//! THROUGH THAT HANDLE, and for every region object ever created whether its backing file is still mapped.
use crate::mk::make_region;
use crate::util::*;
use serde_json::{json, Value};
use std::num::NonZeroUsize;
use std::sync::Arc;
use vm_memory::bitmap::{AtomicBitmap, Bitmap};
use vm_memory::{
    Bytes, FileOffset, GuestAddress, GuestAddressSpace, GuestMemory, GuestMemoryAtomic, GuestMemoryError, GuestMemoryLoadGuard,
    GuestMemoryMmap, GuestMemoryRegion, GuestRegionMmap, MemoryRegionAddress,
};

type B = AtomicBitmap;
type M = GuestMemoryMmap<B>;
type R = GuestRegionMmap<B>;

enum Slot {
    Region(Arc<R>),
    Map(M),
    Arc(Arc<M>),
    Guard(GuestMemoryLoadGuard<M>),
    Cell(GuestMemoryAtomic<M>),
}

struct Obj {
    host: usize,
    name: String,
    anon: bool,
}

#[derive(Default)]
pub struct SysExec {
    slots: Vec<Option<Slot>>,
    objs: Vec<Obj>,
    cands: Vec<(u64, usize)>,
    page: usize,
    counter: usize,
}

fn skip() -> Value {
    json!({"k": "skip"})
}

fn gerr(e: &GuestMemoryError) -> &'static str {
    match e {
        GuestMemoryError::InvalidGuestAddress(_) => "InvalidGuestAddress",
        GuestMemoryError::InvalidBackendAddress => "InvalidBackendAddress",
        GuestMemoryError::HostAddressNotAvailable => "HostAddressNotAvailable",
        GuestMemoryError::PartialBuffer { .. } => "PartialBuffer",
        GuestMemoryError::IOError(_) => "IOError",
        GuestMemoryError::GuestAddressOverflow => "GuestAddressOverflow",
        _ => "Other",
    }
}

impl SysExec {
    fn rid_of(&self, r: &R) -> usize {
        let host = r.as_ptr() as usize;
        self.objs.iter().position(|o| o.host == host).map(|i| i + 1).unwrap_or(0)
    }
    fn project_region(&self, r: &R) -> Value {
        let n = r.len() as usize;
        let mut mem = vec![0u8; n];
        let got = r.read(&mut mem, MemoryRegionAddress(0)).unwrap_or(usize::MAX);
        let pages = (n + self.page - 1) / self.page;
        let dirty: Vec<usize> = (0..pages).filter(|p| r.bitmap().dirty_at(p * self.page)).collect();
        json!({"r": self.rid_of(r), "s": r.start_addr().0, "n": n, "got": got, "mem": mem, "dirty": dirty})
    }
    fn project_mem(&self, m: &M) -> Vec<Value> {
        m.iter().map(|r| self.project_region(r)).collect()
    }
    fn state(&self) -> Value {
        let txt = std::fs::read_to_string("/proc/self/maps").expect("harness: /proc/self/maps");
        // 2 = cannot tell (an anonymous mapping has no name in /proc/self/maps)
        let mapped: Vec<u32> = self.objs.iter().map(|o| if o.anon { 2 } else { txt.lines().any(|l| l.ends_with(&o.name)) as u32 }).collect();
        let hs: Vec<Value> = self
            .slots
            .iter()
            .map(|s| match s {
                None => json!({"k": "dead", "regs": []}),
                Some(Slot::Region(r)) => json!({"k": "region", "regs": [self.project_region(r)]}),
                Some(Slot::Map(m)) => json!({"k": "map", "regs": self.project_mem(m)}),
                Some(Slot::Arc(m)) => json!({"k": "snap", "regs": self.project_mem(m)}),
                Some(Slot::Guard(m)) => json!({"k": "snap", "regs": self.project_mem(m)}),
                Some(Slot::Cell(c)) => json!({"k": "cell", "regs": self.project_mem(&c.memory())}),
            })
            .collect();
        json!({"hs": hs, "mapped": mapped})
    }
    fn live(&self, i: usize) -> Option<&Slot> {
        if i == 0 || i > self.slots.len() {
            None
        } else {
            self.slots[i - 1].as_ref()
        }
    }
    fn cleanup(&mut self) {
        self.slots.clear();
        for o in &self.objs {
            let _ = std::fs::remove_file(&o.name);
        }
        self.objs.clear();
    }
    fn push(&mut self, s: Slot) -> Value {
        self.slots.push(Some(s));
        json!({"k": "ok", "v": self.slots.len()})
    }
    /// run `f` on the memory a handle denotes (map, snapshot, or the cell's current map)
    fn with_mem<T>(&self, h: usize, f: impl FnOnce(&M) -> T) -> Option<T> {
        match self.live(h) {
            Some(Slot::Map(m)) => Some(f(m)),
            Some(Slot::Arc(m)) => Some(f(m)),
            Some(Slot::Guard(m)) => Some(f(m)),
            Some(Slot::Cell(c)) => Some(f(&c.memory())),
            _ => None,
        }
    }
}

impl Drop for SysExec {
    fn drop(&mut self) {
        self.cleanup();
    }
}

impl Exec for SysExec {
    fn step(&mut self, line: &Value) -> Value {
        let op = line["op"].as_str().expect("op");
        let geti = |k: &str| line["a"][k].as_u64().unwrap_or(0) as usize;
        let r = match op {
            "init" => {
                self.cleanup();
                self.cands = line["a"]["cands"]
                    .as_array()
                    .expect("harness: cands")
                    .iter()
                    .map(|c| (c[0].as_u64().unwrap(), c[1].as_u64().unwrap() as usize))
                    .collect();
                self.page = us(line, "page");
                json!({"k": "ok", "v": 0})
            }
            "create" => {
                let (base, n) = self.cands[geti("c") - 1];
                self.counter += 1;
                let name = format!("/tmp/vmh-sys-{}-{}", std::process::id(), self.counter);
                let f = std::fs::OpenOptions::new().read(true).write(true).create(true).truncate(true).open(&name).expect("harness: file");
                f.set_len(4096).unwrap();
                // every other candidate is private anonymous memory (what a discarded page loses for good), the rest is a shared
                // file mapping (whose presence /proc/self/maps can tell)
                let anon = geti("c") % 2 == 0;
                let region = make_region(n, NonZeroUsize::new(self.page).unwrap(), if anon { None } else { Some(FileOffset::new(f, 0)) }, base);
                let g = GuestRegionMmap::new(region, GuestAddress(base)).expect("harness: region");
                let host = g.as_ptr() as usize;
                // an address handed out again belongs to the new object (the old mapping is necessarily gone)
                for o in self.objs.iter_mut().filter(|o| o.host == host) {
                    o.host = 0;
                }
                self.objs.push(Obj { host, name, anon });
                self.push(Slot::Region(Arc::new(g)))
            }
            "build" => {
                let ids: Vec<usize> = line["a"]["hs"].as_array().expect("harness: hs").iter().map(|x| x.as_u64().unwrap() as usize).collect();
                let mut v = Vec::new();
                for i in &ids {
                    if let Some(Slot::Region(r)) = self.live(*i) {
                        v.push(r.clone());
                    }
                }
                if v.len() != ids.len() {
                    skip()
                } else {
                    match GuestMemoryMmap::from_arc_regions(v) {
                        Ok(m) => self.push(Slot::Map(m)),
                        Err(e) => json!({"k": "err", "e": format!("{e:?}").split(['(', ' ', '{']).next().unwrap_or("?")}),
                    }
                }
            }
            "insert" => match (self.live(geti("m")), self.live(geti("r"))) {
                (Some(Slot::Map(m)), Some(Slot::Region(r))) => match m.insert_region(r.clone()) {
                    Ok(nm) => self.push(Slot::Map(nm)),
                    Err(e) => json!({"k": "err", "e": format!("{e:?}").split(['(', ' ', '{']).next().unwrap_or("?")}),
                },
                _ => skip(),
            },
            "remove" => match self.live(geti("m")) {
                Some(Slot::Map(m)) if geti("i") >= 1 && geti("i") <= m.num_regions() => {
                    let reg = m.iter().nth(geti("i") - 1).unwrap();
                    match m.remove_region(reg.start_addr(), reg.len()) {
                        Ok((nm, r)) => {
                            let v = self.push(Slot::Map(nm));
                            self.slots.push(Some(Slot::Region(r)));
                            v
                        }
                        Err(e) => json!({"k": "err", "e": format!("{e:?}").split(['(', ' ', '{']).next().unwrap_or("?")}),
                    }
                }
                _ => skip(),
            },
            "atomic" => match self.live(geti("m")) {
                Some(Slot::Map(m)) => {
                    let c = GuestMemoryAtomic::new(m.clone());
                    self.push(Slot::Cell(c))
                }
                _ => skip(),
            },
            "snap" => match self.live(geti("h")) {
                Some(Slot::Cell(c)) => {
                    // alternate between keeping the guard and converting it into an owned Arc
                    let g = c.memory();
                    let sl = if self.slots.len() % 2 == 0 { Slot::Guard(g) } else { Slot::Arc(g.into_inner()) };
                    self.push(sl)
                }
                _ => skip(),
            },
            "replace" => match (self.live(geti("h")), self.live(geti("m"))) {
                (Some(Slot::Cell(c)), Some(Slot::Map(m))) => {
                    c.lock().unwrap().replace(m.clone());
                    json!({"k": "ok", "v": 0})
                }
                _ => skip(),
            },
            "clone" => match self.live(geti("h")) {
                Some(sl) => {
                    let c = match sl {
                        Slot::Region(r) => Slot::Region(r.clone()),
                        Slot::Map(m) => Slot::Map(m.clone()),
                        Slot::Arc(a) => Slot::Arc(a.clone()),
                        Slot::Guard(g) => Slot::Guard(g.clone()),
                        Slot::Cell(a) => Slot::Cell(a.clone()),
                    };
                    self.push(c)
                }
                None => skip(),
            },
            "drop" => {
                let i = geti("h");
                if self.live(i).is_some() {
                    self.slots[i - 1] = None;
                    json!({"k": "ok", "v": 0})
                } else {
                    skip()
                }
            }
            "write" => {
                let data: Vec<u8> = line["a"]["data"].as_array().expect("harness: data").iter().map(|x| x.as_u64().unwrap() as u8).collect();
                let addr = GuestAddress(u(line, "addr"));
                match self.with_mem(geti("h"), |m| guarded(|| match m.write(&data, addr) {
                    Ok(n) => json!({"k": "ok", "v": n}),
                    Err(e) => json!({"k": "err", "e": gerr(&e)}),
                })) {
                    Some(v) => v,
                    None => skip(),
                }
            }
            "read" => {
                let n = us(line, "len");
                let addr = GuestAddress(u(line, "addr"));
                match self.with_mem(geti("h"), |m| guarded(|| {
                    let mut buf = vec![0xEEu8; n];
                    match m.read(&mut buf, addr) {
                        Ok(k) => json!({"k": "ok", "v": k, "data": buf[..k.min(n)]}),
                        Err(e) => json!({"k": "err", "e": gerr(&e)}),
                    }
                })) {
                    Some(v) => v,
                    None => skip(),
                }
            }
            "reset" => {
                let i = geti("i");
                match self.with_mem(geti("h"), |m| {
                    if i >= 1 && i <= m.num_regions() {
                        m.iter().nth(i - 1).unwrap().bitmap().reset();
                        json!({"k": "ok", "v": 0})
                    } else {
                        skip()
                    }
                }) {
                    Some(v) => v,
                    None => skip(),
                }
            }
            o => panic!("harness: unknown system op {o}"),
        };
        event(line, r, self.state())
    }
}
