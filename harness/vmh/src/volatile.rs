//! Executor for the Volatile module: one root container (VolatileSlice over a heap buffer with
//! canaries, or an MmapRegion) with an AtomicBitmap of page size P, and the accessor at the end of
//! the current derivation chain.  Operations are named and parameterised like the public API.
//!
//! Typed accessors (VolatileRef<T>, VolatileArrayRef<T>) are kept as *recipes* (source + arguments)
//! and re-derived through the real derivation code on every use, because T varies at run time.
use crate::util::*;
use crate::types::*;
use serde_json::{json, Value};
use std::num::NonZeroUsize;
use std::sync::atomic::Ordering;
use vm_memory::bitmap::{AtomicBitmap, Bitmap, RefSlice};
use vm_memory::mmap::MmapRegionBuilder;
use vm_memory::volatile_memory::{Error as VErr, PtrGuard, PtrGuardMut};
use vm_memory::{
    AtomicAccess, ByteValued, Bytes, MmapRegion, VolatileArrayRef, VolatileMemory, VolatileRef, VolatileSlice,
};

type BSl = RefSlice<'static, AtomicBitmap>;
type VS = VolatileSlice<'static, BSl>;
type Region = MmapRegion<AtomicBitmap>;

const CANARY: usize = 64;

#[derive(Clone, Copy)]
enum Src {
    Region(&'static Region),
    Slice(VS),
}

#[derive(Clone)]
enum Cur {
    Mem(Src),
    Ref { src: Src, o: usize, esz: usize },
    Arr { src: Src, o: usize, n: usize, esz: usize },
    ArrU8(VS),
    RefAt { arr: Box<Cur>, i: usize },
}

pub struct VolExec {
    heap: Vec<u8>,
    base: *mut u8,
    bitmap: Option<Box<AtomicBitmap>>,
    region: Option<Box<Region>>,
    n: usize,
    p: usize,
    cur: Option<Cur>,
    root: Option<Cur>,
}

impl Default for VolExec {
    fn default() -> Self {
        VolExec { heap: Vec::new(), base: std::ptr::null_mut(), bitmap: None, region: None, n: 0, p: 1, cur: None, root: None }
    }
}

pub fn verr(e: &VErr) -> Value {
    match e {
        VErr::OutOfBounds { .. } => json!({"k": "err", "e": "OutOfBounds"}),
        VErr::Overflow { .. } => json!({"k": "err", "e": "Overflow"}),
        VErr::TooBig { .. } => json!({"k": "err", "e": "TooBig"}),
        VErr::Misaligned { .. } => json!({"k": "err", "e": "Misaligned"}),
        VErr::IOError(io) => json!({"k": "err", "e": "IOError", "io": format!("{:?}", io.kind())}),
        VErr::PartialBuffer { expected, completed } => {
            json!({"k": "err", "e": "PartialBuffer", "exp": expected, "done": completed})
        }
    }
}

fn ok() -> Value {
    json!({"k": "ok"})
}
fn skip() -> Value {
    json!({"k": "skip"})
}

unsafe fn stat<T>(r: &T) -> &'static T {
    &*(r as *const T)
}

impl VolExec {
    fn root_ptr(&self) -> *mut u8 {
        match &self.region {
            Some(r) => r.as_ptr(),
            None => self.base,
        }
    }
    fn bm(&self) -> &AtomicBitmap {
        match &self.region {
            Some(r) => r.bitmap(),
            None => self.bitmap.as_ref().unwrap(),
        }
    }
    fn root_slice(&self) -> VS {
        match &self.region {
            // SAFETY (harness): the region is boxed and outlives every accessor (cur is reset first)
            Some(r) => unsafe { std::mem::transmute::<VolatileSlice<'_, _>, VS>(r.as_volatile_slice()) },
            None => unsafe {
                let bm: &'static AtomicBitmap = stat(self.bitmap.as_ref().unwrap().as_ref());
                VolatileSlice::with_bitmap(self.base, self.n, bm.slice_at(0), None)
            },
        }
    }
    fn off_of(&self, p: *const u8) -> i64 {
        (p as i64).wrapping_sub(self.root_ptr() as i64)
    }

    // ---- re-derivation of typed accessors -------------------------------------------------
    fn get_slice_src(src: Src, o: usize, c: usize) -> Result<VS, VErr> {
        match src {
            Src::Region(r) => r.get_slice(o, c).map(|s| unsafe { std::mem::transmute::<VolatileSlice<'_, _>, VS>(s) }),
            Src::Slice(s) => s.get_slice(o, c).map(|s| unsafe { std::mem::transmute::<VolatileSlice<'_, _>, VS>(s) }),
        }
    }
    fn get_ref_src<T: ByteValued + 'static>(src: Src, o: usize) -> Result<VolatileRef<'static, T, BSl>, VErr> {
        match src {
            Src::Region(r) => r.get_ref::<T>(o).map(|x| unsafe { std::mem::transmute_copy(&x) }),
            Src::Slice(s) => s.get_ref::<T>(o).map(|x| unsafe { std::mem::transmute_copy(&x) }),
        }
    }
    fn get_arr_src<T: ByteValued + 'static>(src: Src, o: usize, n: usize) -> Result<VolatileArrayRef<'static, T, BSl>, VErr> {
        match src {
            Src::Region(r) => r.get_array_ref::<T>(o, n).map(|x| unsafe { std::mem::transmute_copy(&x) }),
            Src::Slice(s) => s.get_array_ref::<T>(o, n).map(|x| unsafe { std::mem::transmute_copy(&x) }),
        }
    }
    fn mk_arr<T: ByteValued + 'static>(c: &Cur) -> VolatileArrayRef<'static, T, BSl> {
        match c {
            Cur::Arr { src, o, n, .. } => Self::get_arr_src::<T>(*src, *o, *n).expect("harness: re-derive array"),
            Cur::ArrU8(s) => {
                let a: VolatileArrayRef<'static, u8, BSl> = VolatileArrayRef::from(*s);
                assert_eq!(std::mem::size_of::<T>(), 1);
                // T is u8 here (esz == 1); same type at run time
                unsafe { std::mem::transmute_copy(&a) }
            }
            _ => panic!("harness: not an array"),
        }
    }
    fn mk_ref<T: ByteValued + 'static>(c: &Cur) -> VolatileRef<'static, T, BSl> {
        match c {
            Cur::Ref { src, o, .. } => Self::get_ref_src::<T>(*src, *o).expect("harness: re-derive ref"),
            Cur::RefAt { arr, i } => Self::mk_arr::<T>(arr).ref_at(*i),
            _ => panic!("harness: not a ref"),
        }
    }
    fn esz_of(c: &Cur) -> usize {
        match c {
            Cur::Ref { esz, .. } | Cur::Arr { esz, .. } => *esz,
            Cur::ArrU8(_) => 1,
            Cur::RefAt { arr, .. } => Self::esz_of(arr),
            Cur::Mem(_) => 1,
        }
    }

    fn guard_info(&self, g: &PtrGuard, gm: &PtrGuardMut) -> (i64, usize, i64, usize) {
        (self.off_of(g.as_ptr()), g.len(), self.off_of(gm.as_ptr() as *const u8), gm.len())
    }

    /// (kind, off, byte len, esz, n, guard off, guard len, guard_mut off, guard_mut len)
    fn cur_info(&self) -> Value {
        let c = self.cur.as_ref().unwrap();
        match c {
            Cur::Mem(Src::Region(r)) => {
                json!({"kind": "region", "off": 0, "len": r.len(), "esz": 1, "n": r.len(), "glen": r.len(), "gmlen": r.len(), "gmoff": 0})
            }
            Cur::Mem(Src::Slice(s)) => {
                let (o, l, mo, ml) = self.guard_info(&s.ptr_guard(), &s.ptr_guard_mut());
                json!({"kind": "slice", "off": o, "len": s.len(), "esz": 1, "n": s.len(), "glen": l, "gmoff": mo, "gmlen": ml})
            }
            Cur::Ref { .. } | Cur::RefAt { .. } => {
                let esz = Self::esz_of(c);
                with_ty!(esz, T, {
                    let r = Self::mk_ref::<T>(c);
                    let (o, l, mo, ml) = self.guard_info(&r.ptr_guard(), &r.ptr_guard_mut());
                    json!({"kind": "ref", "off": o, "len": r.len(), "esz": esz, "n": 1, "glen": l, "gmoff": mo, "gmlen": ml})
                })
            }
            Cur::Arr { .. } | Cur::ArrU8(_) => {
                let esz = Self::esz_of(c);
                with_ty!(esz, T, {
                    let a = Self::mk_arr::<T>(c);
                    let (o, l, mo, ml) = self.guard_info(&a.ptr_guard(), &a.ptr_guard_mut());
                    json!({"kind": "array", "off": o, "len": a.len().saturating_mul(a.element_size()), "esz": a.element_size(),
                           "n": a.len(), "glen": l, "gmoff": mo, "gmlen": ml})
                })
            }
        }
    }

    fn state(&self) -> Value {
        if self.cur.is_none() {
            return json!({});
        }
        let mem: Vec<u8> = unsafe { std::slice::from_raw_parts(self.root_ptr(), self.n).to_vec() };
        let bm = self.bm();
        let dirty: Vec<usize> = (0..bm.len() + 70).filter(|&i| bm.is_bit_set(i)).collect();
        let canary = if self.region.is_none() {
            let start = self.base as usize - self.heap.as_ptr() as usize;
            self.heap[start - CANARY..start].iter().all(|&b| b == 0xCA)
                && self.heap[start + self.n..start + self.n + CANARY].iter().all(|&b| b == 0xCA)
        } else {
            true
        };
        json!({"mem": mem, "dirty": dirty, "cur": self.cur_info(), "canary": canary,
               "blen": bm.len(), "bbytes": bm.byte_size()})
    }

    /// resolve a numeric argument: a number, or {"len": d} = current byte length + d, {"n": d} = elements + d
    fn num(&self, line: &Value, key: &str) -> usize {
        let v = &line["a"][key];
        if let Some(x) = v.as_u64() {
            return x as usize;
        }
        let info = self.cur_info();
        if let Some(d) = v.get("len").and_then(|d| d.as_i64()) {
            let l = info["len"].as_u64().unwrap() as i64;
            return (l + d).max(0) as usize;
        }
        if let Some(d) = v.get("n").and_then(|d| d.as_i64()) {
            let l = info["n"].as_u64().unwrap() as i64;
            return (l + d).max(0) as usize;
        }
        panic!("harness: bad numeric arg {key} in {line}");
    }

    /// resolve a byte buffer argument: explicit list, or {"blen": <num>, "seed": k}
    fn buf(&self, line: &Value, key: &str) -> Vec<u8> {
        let v = &line["a"][key];
        if let Some(arr) = v.as_array() {
            return arr.iter().map(|x| x.as_u64().expect("harness: byte") as u8).collect();
        }
        let mut tmp = line.clone();
        tmp["a"]["__blen"] = v["blen"].clone();
        let n = self.num(&tmp, "__blen");
        let mut mult = v.get("mul").and_then(|m| m.as_u64()).unwrap_or(1) as usize;
        if v.get("mulesz").is_some() {
            mult *= Self::esz_of(self.cur.as_ref().unwrap());
        }
        let seed = v["seed"].as_u64().unwrap_or(0) as usize;
        (0..n * mult).map(|i| ((seed + i * 7) % 251 + 1) as u8).collect()
    }
}

fn res_unit(r: Result<(), VErr>) -> Value {
    match r {
        Ok(()) => ok(),
        Err(e) => verr(&e),
    }
}

impl Exec for VolExec {
    fn step(&mut self, line: &Value) -> Value {
        let op = line["op"].as_str().expect("op").to_string();
        if op == "init" {
            self.cur = None;
            self.root = None;
            self.region = None;
            self.bitmap = None;
            let n = us(line, "n");
            let b = us(line, "b");
            let p = us(line, "p");
            let kind = s(line, "root").to_string();
            self.n = n;
            self.p = p;
            let nz = NonZeroUsize::new(p).expect("harness: p = 0");
            if kind == "region" {
                let r = MmapRegionBuilder::new_with_bitmap(n, AtomicBitmap::new(n, nz))
                    .with_mmap_prot(libc::PROT_READ | libc::PROT_WRITE)
                    .with_mmap_flags(libc::MAP_ANONYMOUS | libc::MAP_PRIVATE | libc::MAP_NORESERVE)
                    .build()
                    .expect("harness: mmap region");
                self.region = Some(Box::new(r));
                let rr: &'static Region = unsafe { stat(self.region.as_ref().unwrap().as_ref()) };
                self.cur = Some(Cur::Mem(Src::Region(rr)));
            } else {
                self.heap = vec![0xCA; n + 2 * CANARY + 32];
                let start = self.heap.as_mut_ptr() as usize + CANARY;
                let aligned = (start + 15) & !15;
                self.base = (aligned + b) as *mut u8;
                self.bitmap = Some(Box::new(AtomicBitmap::new(n, nz)));
                self.cur = Some(Cur::Mem(Src::Slice(self.root_slice())));
            }
            // canonical fill
            for i in 0..n {
                unsafe { *self.root_ptr().add(i) = (i % 251 + 1) as u8 };
            }
            self.root = self.cur.clone();
            if self.root_ptr() as usize % 16 != b && n > 0 {
                panic!("harness: could not realise base alignment {b}");
            }
            return event(line, ok(), self.state());
        }

        // resolve arguments (relative forms) up front so that the logged event carries numbers
        let mut a = line["a"].clone();
        for key in ["o", "c", "m", "n", "i", "addr", "bl", "count", "base", "off", "to", "tc", "esz", "al", "pick"] {
            if !a[key].is_null() {
                a[key] = json!(self.num(line, key));
            }
        }
        for key in ["buf", "src"] {
            if !a[key].is_null() {
                a[key] = json!(self.buf(line, key));
            }
        }
        let rl = json!({"op": op, "a": a});
        let line = &rl;
        let g = |k: &str| us(line, k);
        let bytes = |k: &str| -> Vec<u8> {
            line["a"][k].as_array().unwrap().iter().map(|x| x.as_u64().unwrap() as u8).collect()
        };
        let cur = self.cur.clone().unwrap();
        let mut newcur: Option<Cur> = None;

        let r = guarded(|| -> Value {
            match (op.as_str(), &cur) {
                // ---------------- derivations ----------------
                ("subslice", Cur::Mem(Src::Slice(s))) => match s.subslice(g("o"), g("c")) {
                    Ok(x) => {
                        newcur = Some(Cur::Mem(Src::Slice(x)));
                        ok()
                    }
                    Err(e) => verr(&e),
                },
                ("get_slice", Cur::Mem(src)) => match Self::get_slice_src(*src, g("o"), g("c")) {
                    Ok(x) => {
                        newcur = Some(Cur::Mem(Src::Slice(x)));
                        ok()
                    }
                    Err(e) => verr(&e),
                },
                ("offset", Cur::Mem(Src::Slice(s))) => match s.offset(g("c")) {
                    Ok(x) => {
                        newcur = Some(Cur::Mem(Src::Slice(x)));
                        ok()
                    }
                    Err(e) => verr(&e),
                },
                ("split_at", Cur::Mem(Src::Slice(s))) => match s.split_at(g("m")) {
                    Ok((x, y)) => {
                        let gx = x.ptr_guard();
                        let gy = y.ptr_guard();
                        let r = json!({"k": "ok", "a": [self.off_of(gx.as_ptr()), x.len()], "b": [self.off_of(gy.as_ptr()), y.len()]});
                        newcur = Some(Cur::Mem(Src::Slice(if g("pick") == 0 { x } else { y })));
                        r
                    }
                    Err(e) => verr(&e),
                },
                ("get_ref", Cur::Mem(src)) => {
                    let (o, esz) = (g("o"), g("esz"));
                    with_ty!(esz, T, {
                        match Self::get_ref_src::<T>(*src, o) {
                            Ok(_) => {
                                newcur = Some(Cur::Ref { src: *src, o, esz });
                                ok()
                            }
                            Err(e) => verr(&e),
                        }
                    })
                }
                ("get_array_ref", Cur::Mem(src)) => {
                    let (o, n, esz) = (g("o"), g("n"), g("esz"));
                    with_ty!(esz, T, {
                        match Self::get_arr_src::<T>(*src, o, n) {
                            Ok(_) => {
                                newcur = Some(Cur::Arr { src: *src, o, n, esz });
                                ok()
                            }
                            Err(e) => verr(&e),
                        }
                    })
                }
                ("to_slice", Cur::Ref { .. }) | ("to_slice", Cur::RefAt { .. }) => {
                    let esz = Self::esz_of(&cur);
                    with_ty!(esz, T, {
                        newcur = Some(Cur::Mem(Src::Slice(Self::mk_ref::<T>(&cur).to_slice())));
                    });
                    ok()
                }
                ("to_slice", Cur::Arr { .. }) | ("to_slice", Cur::ArrU8(_)) => {
                    let esz = Self::esz_of(&cur);
                    with_ty!(esz, T, {
                        newcur = Some(Cur::Mem(Src::Slice(Self::mk_arr::<T>(&cur).to_slice())));
                    });
                    ok()
                }
                ("ref_at", Cur::Arr { .. }) | ("ref_at", Cur::ArrU8(_)) => {
                    let esz = Self::esz_of(&cur);
                    let i = g("i");
                    with_ty!(esz, T, {
                        let _ = Self::mk_arr::<T>(&cur).ref_at(i);
                    });
                    newcur = Some(Cur::RefAt { arr: Box::new(cur.clone()), i });
                    ok()
                }
                ("array_from_slice", Cur::Mem(Src::Slice(s))) => {
                    newcur = Some(Cur::ArrU8(*s));
                    ok()
                }
                ("as_volatile_slice", Cur::Mem(src)) => {
                    let x: VS = match src {
                        Src::Region(r) => unsafe { std::mem::transmute::<VolatileSlice<'_, _>, VS>(r.as_volatile_slice()) },
                        Src::Slice(s) => unsafe { std::mem::transmute::<VolatileSlice<'_, _>, VS>(s.as_volatile_slice()) },
                    };
                    newcur = Some(Cur::Mem(Src::Slice(x)));
                    ok()
                }
                ("root", _) => {
                    newcur = self.root.clone();
                    ok()
                }
                // ---------------- queries ----------------
                ("compute_end_offset", Cur::Mem(src)) => {
                    let r = match src {
                        Src::Region(r) => r.compute_end_offset(g("base"), g("off")),
                        Src::Slice(s) => s.compute_end_offset(g("base"), g("off")),
                    };
                    match r {
                        Ok(v) => json!({"k": "ok", "v": v}),
                        Err(e) => verr(&e),
                    }
                }
                ("len", _) => match &cur {
                    Cur::Mem(Src::Region(r)) => json!({"k": "ok", "len": VolatileMemory::len(*r), "empty": VolatileMemory::is_empty(*r)}),
                    Cur::Mem(Src::Slice(s)) => json!({"k": "ok", "len": s.len(), "empty": s.is_empty()}),
                    Cur::Ref { .. } | Cur::RefAt { .. } => {
                        let esz = Self::esz_of(&cur);
                        with_ty!(esz, T, { json!({"k": "ok", "len": Self::mk_ref::<T>(&cur).len(), "empty": false}) })
                    }
                    _ => {
                        let esz = Self::esz_of(&cur);
                        with_ty!(esz, T, {
                            let a = Self::mk_arr::<T>(&cur);
                            json!({"k": "ok", "len": a.len(), "empty": a.is_empty()})
                        })
                    }
                },
                ("ptr_guard", Cur::Mem(Src::Region(_))) => skip(),
                ("ptr_guard", _) => {
                    let info = self.cur_info();
                    json!({"k": "ok", "off": info["off"], "len": info["glen"], "moff": info["gmoff"], "mlen": info["gmlen"]})
                }
                ("get_atomic_ref", Cur::Mem(src)) => {
                    let (o, esz) = (g("o"), g("esz"));
                    with_atomic_ty!(esz, T, {
                        let r = match src {
                            Src::Region(r) => r.get_atomic_ref::<<T as AtomicAccess>::A>(o).map(|x| x as *const _ as *const u8),
                            Src::Slice(s) => s.get_atomic_ref::<<T as AtomicAccess>::A>(o).map(|x| x as *const _ as *const u8),
                        };
                        match r {
                            Ok(p) => {
                                let v: T = unsafe { &*(p as *const <T as AtomicAccess>::A) }.load(Ordering::SeqCst).into();
                                json!({"k": "ok", "off": self.off_of(p), "data": bv(&v)})
                            }
                            Err(e) => verr(&e),
                        }
                    })
                }
                ("aligned_as_ref", Cur::Mem(src)) | ("aligned_as_mut", Cur::Mem(src)) => {
                    let (o, esz, al) = (g("o"), g("esz"), g("al"));
                    let is_mut = op == "aligned_as_mut";
                    with_aligned_ty!(esz, al, T, {
                        assert_eq!(std::mem::align_of::<T>(), al, "harness: alignment table");
                        let r: Result<*const u8, VErr> = unsafe {
                            match (src, is_mut) {
                                (Src::Region(r), false) => r.aligned_as_ref::<T>(o).map(|x| x as *const T as *const u8),
                                (Src::Region(r), true) => r.aligned_as_mut::<T>(o).map(|x| x as *const T as *const u8),
                                (Src::Slice(s), false) => s.aligned_as_ref::<T>(o).map(|x| x as *const T as *const u8),
                                (Src::Slice(s), true) => s.aligned_as_mut::<T>(o).map(|x| x as *const T as *const u8),
                            }
                        };
                        match r {
                            Ok(p) => {
                                let v: T = unsafe { std::ptr::read_volatile(p as *const T) };
                                json!({"k": "ok", "off": self.off_of(p), "data": bv(&v)})
                            }
                            Err(e) => verr(&e),
                        }
                    })
                }
                // ByteValued::from_slice / from_mut_slice over the host bytes [o, o+n) of the current slice
                ("bv_from_slice", Cur::Mem(Src::Slice(s))) | ("bv_from_mut_slice", Cur::Mem(Src::Slice(s))) => {
                    let (o, n, esz, al) = (g("o"), g("n"), g("esz"), g("al"));
                    if o.checked_add(n).map_or(true, |e| e > s.len()) {
                        skip()
                    } else {
                        let base = s.ptr_guard_mut().as_ptr();
                        with_aligned_ty!(esz, al, T, {
                            assert_eq!(std::mem::align_of::<T>(), al, "harness: alignment table");
                            let r: Option<*const u8> = unsafe {
                                if op == "bv_from_slice" {
                                    <T as ByteValued>::from_slice(std::slice::from_raw_parts(base.add(o) as *const u8, n)).map(|x| x as *const T as *const u8)
                                } else {
                                    <T as ByteValued>::from_mut_slice(std::slice::from_raw_parts_mut(base.add(o), n)).map(|x| x as *const T as *const u8)
                                }
                            };
                            match r {
                                Some(p) => {
                                    let v: T = unsafe { std::ptr::read_volatile(p as *const T) };
                                    json!({"k": "ok", "off": self.off_of(p), "data": bv(&v)})
                                }
                                None => json!({"k": "none"}),
                            }
                        })
                    }
                }
                // ---------------- Bytes<usize> ----------------
                ("write", Cur::Mem(Src::Slice(s))) => match s.write(&bytes("buf"), g("addr")) {
                    Ok(n) => json!({"k": "ok", "n": n}),
                    Err(e) => verr(&e),
                },
                ("read", Cur::Mem(Src::Slice(s))) => {
                    let mut b = vec![0u8; g("bl")];
                    match s.read(&mut b, g("addr")) {
                        Ok(n) => json!({"k": "ok", "n": n, "data": b[..n.min(b.len())]}),
                        Err(e) => verr(&e),
                    }
                }
                ("write_slice", Cur::Mem(Src::Slice(s))) => res_unit(s.write_slice(&bytes("buf"), g("addr"))),
                ("read_slice", Cur::Mem(Src::Slice(s))) => {
                    let mut b = vec![0u8; g("bl")];
                    match s.read_slice(&mut b, g("addr")) {
                        Ok(()) => json!({"k": "ok", "n": b.len(), "data": b}),
                        Err(e) => verr(&e),
                    }
                }
                ("write_obj", Cur::Mem(Src::Slice(s))) => {
                    let b = bytes("buf");
                    with_ty!(b.len(), T, { res_unit(s.write_obj::<T>(from_bytes::<T>(&b), g("addr"))) })
                }
                ("read_obj", Cur::Mem(Src::Slice(s))) => {
                    let esz = g("esz");
                    with_ty!(esz, T, {
                        match s.read_obj::<T>(g("addr")) {
                            Ok(v) => json!({"k": "ok", "n": esz, "data": bv(&v)}),
                            Err(e) => verr(&e),
                        }
                    })
                }
                ("store", Cur::Mem(Src::Slice(s))) => {
                    let b = bytes("buf");
                    with_atomic_ty!(b.len(), T, { res_unit(s.store::<T>(from_bytes::<T>(&b), g("addr"), Ordering::SeqCst)) })
                }
                ("load", Cur::Mem(Src::Slice(s))) => {
                    let esz = g("esz");
                    with_atomic_ty!(esz, T, {
                        match s.load::<T>(g("addr"), Ordering::SeqCst) {
                            Ok(v) => json!({"k": "ok", "n": esz, "data": bv(&v)}),
                            Err(e) => verr(&e),
                        }
                    })
                }
                ("copy_to", Cur::Mem(Src::Slice(s))) => {
                    let (esz, bl) = (g("esz"), g("bl"));
                    with_ty!(esz, T, {
                        let mut b: Vec<T> = vec![T::zeroed(); bl];
                        let n = s.copy_to::<T>(&mut b);
                        if esz == 0 {
                            json!({"k": "ok", "zst": true})
                        } else {
                            json!({"k": "ok", "n": n, "data": bytes_of(&b[..n.min(bl)])})
                        }
                    })
                }
                ("copy_from", Cur::Mem(Src::Slice(s))) => {
                    let esz = g("esz");
                    let b = bytes("buf");
                    with_ty!(esz, T, {
                        let v: Vec<T> = if esz == 0 { vec![T::zeroed(); 3] } else { elems::<T>(&b) };
                        s.copy_from::<T>(&v);
                    });
                    ok()
                }
                ("copy_to_volatile_slice", Cur::Mem(Src::Slice(s))) => {
                    let t = self.root_slice().subslice(g("to"), g("tc")).expect("harness: target");
                    s.copy_to_volatile_slice(t);
                    ok()
                }
                ("read_volatile_from", Cur::Mem(Src::Slice(s))) => {
                    let srcb = bytes("src");
                    let mut rd: &[u8] = &srcb;
                    match s.read_volatile_from(g("addr"), &mut rd, g("count")) {
                        Ok(n) => json!({"k": "ok", "n": n, "left": rd.len()}),
                        Err(e) => verr(&e),
                    }
                }
                ("read_exact_volatile_from", Cur::Mem(Src::Slice(s))) => {
                    let srcb = bytes("src");
                    let mut rd: &[u8] = &srcb;
                    res_unit(s.read_exact_volatile_from(g("addr"), &mut rd, g("count")))
                }
                ("read_cursor", Cur::Mem(Src::Slice(s))) => {
                    let srcb = bytes("src");
                    let mut rd = std::io::Cursor::new(&srcb[..]);
                    rd.set_position(line["a"]["pos"].as_u64().expect("harness: pos"));
                    match s.read_volatile_from(g("addr"), &mut rd, g("count")) {
                        Ok(n) => json!({"k": "ok", "n": n}),
                        Err(e) => verr(&e),
                    }
                }
                ("read_exact_cursor", Cur::Mem(Src::Slice(s))) => {
                    let srcb = bytes("src");
                    let mut rd = std::io::Cursor::new(&srcb[..]);
                    rd.set_position(line["a"]["pos"].as_u64().expect("harness: pos"));
                    res_unit(s.read_exact_volatile_from(g("addr"), &mut rd, g("count")))
                }
                ("write_volatile_to", Cur::Mem(Src::Slice(s))) => {
                    let mut sink: Vec<u8> = Vec::new();
                    match s.write_volatile_to(g("addr"), &mut sink, g("count")) {
                        Ok(n) => json!({"k": "ok", "n": n, "data": sink}),
                        Err(e) => verr(&e),
                    }
                }
                ("write_all_volatile_to", Cur::Mem(Src::Slice(s))) => {
                    let mut sink: Vec<u8> = Vec::new();
                    match s.write_all_volatile_to(g("addr"), &mut sink, g("count")) {
                        Ok(()) => json!({"k": "ok", "n": sink.len(), "data": sink}),
                        Err(e) => verr(&e),
                    }
                }
                ("write_to_cursor", Cur::Mem(Src::Slice(s))) => {
                    let mut room = vec![0u8; g("room")];
                    let mut sink = std::io::Cursor::new(&mut room[..]);
                    match s.write_volatile_to(g("addr"), &mut sink, g("count")) {
                        Ok(n) => {
                            let pos = sink.position() as usize;
                            json!({"k": "ok", "n": n, "data": room[..pos]})
                        }
                        Err(e) => verr(&e),
                    }
                }
                ("write_all_to_cursor", Cur::Mem(Src::Slice(s))) => {
                    let mut room = vec![0u8; g("room")];
                    let mut sink = std::io::Cursor::new(&mut room[..]);
                    match s.write_all_volatile_to(g("addr"), &mut sink, g("count")) {
                        Ok(()) => {
                            let pos = sink.position() as usize;
                            json!({"k": "ok", "n": pos, "data": room[..pos]})
                        }
                        Err(e) => verr(&e),
                    }
                }
                ("write_to_bad_fd", Cur::Mem(Src::Slice(s))) => {
                    // a descriptor that cannot be written to: every write fails with EBADF
                    let (a, c) = (g("addr"), g("count"));
                    if a <= s.len() && (s.len() - a).min(c) == 0 {
                        skip()
                    } else {
                        let mut f = std::fs::File::open("/dev/null").expect("harness: /dev/null");
                        match s.write_volatile_to(a, &mut f, c) {
                            Ok(n) => json!({"k": "ok", "n": n}),
                            Err(e) => verr(&e),
                        }
                    }
                }
                ("read_from_bad_fd", Cur::Mem(Src::Slice(s))) => {
                    // a descriptor that cannot be read from: every read fails with EBADF
                    let mut f = std::fs::OpenOptions::new().write(true).open("/dev/null").expect("harness: /dev/null");
                    match s.read_volatile_from(g("addr"), &mut f, g("count")) {
                        Ok(n) => json!({"k": "ok", "n": n}),
                        Err(e) => verr(&e),
                    }
                }
                // ---------------- typed reference ----------------
                ("ref_store", Cur::Ref { .. }) | ("ref_store", Cur::RefAt { .. }) => {
                    let esz = Self::esz_of(&cur);
                    let b = bytes("buf");
                    with_ty!(esz, T, { Self::mk_ref::<T>(&cur).store(from_bytes::<T>(&b)) });
                    ok()
                }
                ("ref_load", Cur::Ref { .. }) | ("ref_load", Cur::RefAt { .. }) => {
                    let esz = Self::esz_of(&cur);
                    with_ty!(esz, T, {
                        let v = Self::mk_ref::<T>(&cur).load();
                        json!({"k": "ok", "n": esz, "data": bv(&v)})
                    })
                }
                // ---------------- element array ----------------
                ("arr_load", Cur::Arr { .. }) | ("arr_load", Cur::ArrU8(_)) => {
                    let esz = Self::esz_of(&cur);
                    with_ty!(esz, T, {
                        let v = Self::mk_arr::<T>(&cur).load(g("i"));
                        json!({"k": "ok", "n": esz, "data": bv(&v)})
                    })
                }
                ("arr_store", Cur::Arr { .. }) | ("arr_store", Cur::ArrU8(_)) => {
                    let esz = Self::esz_of(&cur);
                    let b = bytes("buf");
                    with_ty!(esz, T, { Self::mk_arr::<T>(&cur).store(g("i"), from_bytes::<T>(&b)) });
                    ok()
                }
                ("arr_copy_to", Cur::Arr { .. }) | ("arr_copy_to", Cur::ArrU8(_)) => {
                    let esz = Self::esz_of(&cur);
                    let bl = g("bl");
                    with_ty!(esz, T, {
                        let mut b: Vec<T> = vec![T::zeroed(); bl];
                        let n = Self::mk_arr::<T>(&cur).copy_to(&mut b);
                        if esz == 0 {
                            json!({"k": "ok", "zst": true})
                        } else {
                            json!({"k": "ok", "n": n, "data": bytes_of(&b[..n.min(bl)])})
                        }
                    })
                }
                ("arr_copy_from", Cur::Arr { .. }) | ("arr_copy_from", Cur::ArrU8(_)) => {
                    let esz = Self::esz_of(&cur);
                    let b = bytes("buf");
                    with_ty!(esz, T, {
                        let v: Vec<T> = if esz == 0 { vec![T::zeroed(); 3] } else { elems::<T>(&b) };
                        Self::mk_arr::<T>(&cur).copy_from(&v);
                    });
                    ok()
                }
                ("arr_copy_to_volatile_slice", Cur::Arr { .. }) | ("arr_copy_to_volatile_slice", Cur::ArrU8(_)) => {
                    let esz = Self::esz_of(&cur);
                    let t = self.root_slice().subslice(g("to"), g("tc")).expect("harness: target");
                    with_ty!(esz, T, { Self::mk_arr::<T>(&cur).copy_to_volatile_slice(t) });
                    ok()
                }
                ("bitmap_reset", _) => {
                    self.bm().reset();
                    ok()
                }
                _ => skip(),
            }
        });
        if r["k"] == "ok" {
            if let Some(c) = newcur {
                self.cur = Some(c);
            }
        }
        event(line, r, self.state())
    }
}
