//! Executor for Regions (C10): from_arc_regions / insert_region / remove_region; every map and every
//! removed-region handle created during a history is kept alive and re-observed after every step.
use crate::util::*;
use serde_json::{json, Value};
use std::sync::Arc;
use vm_memory::{Bytes, Error as MErr, GuestAddress, GuestMemory, GuestMemoryMmap, GuestMemoryRegion, GuestRegionMmap, MmapRegion};

type Reg = Arc<GuestRegionMmap<()>>;

#[derive(Default)]
pub struct RegionsExec {
    pool: Vec<Reg>,
    maps: Vec<GuestMemoryMmap<()>>,
    removed: Vec<Reg>,
    created: usize,
}

fn merr(e: &MErr) -> Value {
    let n = match e {
        MErr::InvalidGuestRegion => "InvalidGuestRegion",
        MErr::MmapRegion(_) => "MmapRegion",
        MErr::NoMemoryRegion => "NoMemoryRegion",
        MErr::MemoryRegionOverlap => "MemoryRegionOverlap",
        MErr::UnsortedMemoryRegions => "UnsortedMemoryRegions",
    };
    json!({"k": "err", "e": n})
}

impl RegionsExec {
    fn id_of(&self, r: &GuestRegionMmap<()>) -> usize {
        self.pool.iter().position(|p| std::ptr::eq(p.as_ref(), r)).map(|i| i + 1).unwrap_or(0)
    }
    fn tag(r: &GuestRegionMmap<()>) -> u8 {
        unsafe { std::ptr::read_volatile(r.as_ptr()) }
    }
    fn state(&self) -> Value {
        let pool: Vec<Value> = self
            .pool
            .iter()
            .map(|r| json!({"s": r.start_addr().0, "n": r.len(), "tag": Self::tag(r)}))
            .collect();
        let maps: Vec<Value> = self
            .maps
            .iter()
            .map(|m| {
                // what the map itself reports: iter() for the list, a read through the map for the tag
                let regs: Vec<Value> = m
                    .iter()
                    .map(|r| {
                        let t: Value = match m.read_obj::<u8>(r.start_addr()) {
                            Ok(b) => json!(b),
                            Err(_) => json!(999),
                        };
                        json!({"id": self.id_of(r), "s": r.start_addr().0, "n": r.len(), "tag": t})
                    })
                    .collect();
                json!({"regs": regs, "num": m.num_regions()})
            })
            .collect();
        json!({"pool": pool, "maps": maps})
    }
}

impl Exec for RegionsExec {
    fn step(&mut self, line: &Value) -> Value {
        let op = line["op"].as_str().expect("op");
        // references to regions / maps that do not exist (a shifted replay in which a creation was refused)
        let bad_ref = {
            let a = &line["a"];
            let m_bad = a["m"].as_u64().map(|m| m as usize == 0 || m as usize > self.maps.len()).unwrap_or(false);
            let r_bad = a["r"].as_u64().map(|r| r as usize == 0 || r as usize > self.pool.len()).unwrap_or(false);
            let ids_bad = a["ids"].as_array().map(|v| v.iter().any(|x| x.as_u64().unwrap() as usize > self.pool.len())).unwrap_or(false);
            let i_bad = match (a["m"].as_u64(), a["i"].as_u64()) {
                (Some(m), Some(i)) if !m_bad => i as usize == 0 || i as usize > self.maps[m as usize - 1].num_regions(),
                _ => false,
            };
            m_bad || r_bad || ids_bad || i_bad
        };
        if bad_ref {
            return event(line, json!({"k": "skipref"}), self.state());
        }
        let r = match op {
            "init" => {
                self.maps.clear();
                self.removed.clear();
                self.pool.clear();
                json!({"k": "ok", "v": 0})
            }
            "new_region" => {
                let (s0, n) = (u(line, "s"), us(line, "n"));
                // creation goes through the three public routes in turn: new(mapping, base), from_range anonymous, from_range
                // over a file - the end-of-address-space refusal must not depend on the route
                self.created += 1;
                let res = match self.created % 3 {
                    0 => GuestRegionMmap::<()>::from_range(GuestAddress(s0), n, None),
                    1 => {
                        let path = format!("/tmp/vmh-regions-{}-{}", std::process::id(), self.created);
                        let f = std::fs::OpenOptions::new().read(true).write(true).create(true).truncate(true).open(&path).expect("harness: file");
                        f.set_len(n as u64 + 4096).expect("harness: set_len");
                        let _ = std::fs::remove_file(&path);
                        GuestRegionMmap::<()>::from_range(GuestAddress(s0), n, Some(vm_memory::FileOffset::new(f, 0)))
                    }
                    _ => GuestRegionMmap::new(MmapRegion::<()>::new(n).expect("harness: mmap"), GuestAddress(s0)),
                };
                match res {
                    Ok(g) => {
                        let id = self.pool.len() + 1;
                        unsafe { std::ptr::write_volatile(g.as_ptr(), id as u8) };
                        self.pool.push(Arc::new(g));
                        json!({"k": "ok", "v": id})
                    }
                    Err(e) => merr(&e),
                }
            }
            "from_regions" => {
                let ids: Vec<usize> = line["a"]["ids"].as_array().expect("harness: ids").iter().map(|x| x.as_u64().unwrap() as usize).collect();
                let v: Vec<Reg> = ids.iter().map(|&i| self.pool[i - 1].clone()).collect();
                match guarded_res(|| GuestMemoryMmap::from_arc_regions(v)) {
                    Ok(Ok(m)) => {
                        self.maps.push(m);
                        json!({"k": "ok", "v": self.maps.len()})
                    }
                    Ok(Err(e)) => merr(&e),
                    Err(p) => p,
                }
            }
            "insert_region" => {
                let (m, r) = (us(line, "m"), us(line, "r"));
                let reg = self.pool[r - 1].clone();
                let src = &self.maps[m - 1];
                match guarded_res(|| src.insert_region(reg)) {
                    Ok(Ok(nm)) => {
                        self.maps.push(nm);
                        json!({"k": "ok", "v": self.maps.len()})
                    }
                    Ok(Err(e)) => merr(&e),
                    Err(p) => p,
                }
            }
            "remove_region" => {
                let m = us(line, "m");
                let src = &self.maps[m - 1];
                match guarded_res(|| src.remove_region(GuestAddress(u(line, "base")), u(line, "size"))) {
                    Ok(Ok((nm, reg))) => {
                        let id = self.id_of(reg.as_ref());
                        self.maps.push(nm);
                        self.removed.push(reg);
                        json!({"k": "ok", "v": self.maps.len(), "removed": id})
                    }
                    Ok(Err(e)) => merr(&e),
                    Err(p) => p,
                }
            }
            "write_tag" => {
                let (m, i) = (us(line, "m"), us(line, "i"));
                let map = &self.maps[m - 1];
                let start = map.iter().nth(i - 1).expect("harness: region index").start_addr();
                match map.write_obj::<u8>(u(line, "val") as u8, start) {
                    Ok(()) => json!({"k": "ok"}),
                    Err(_) => json!({"k": "err", "e": "write"}),
                }
            }
            o => panic!("harness: unknown regions op {o}"),
        };
        event(line, r, self.state())
    }
}

fn guarded_res<T, F: FnOnce() -> T>(f: F) -> Result<T, Value> {
    match std::panic::catch_unwind(std::panic::AssertUnwindSafe(f)) {
        Ok(v) => Ok(v),
        Err(_) => Err(json!({"k": "panic"})),
    }
}
