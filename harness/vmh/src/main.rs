//! vmh: executor of operation programs against the real vm-memory crate.
//!
//! usage: vmh <module> <program.ndjson> <out.ndjson>
//!
//! A program is a sequence of JSON lines {"op": .., "a": {..}}; an "init" op starts a new
//! history.  For every line the executor performs the operation on real vm-memory objects
//! (inside catch_unwind) and writes {"op", "a", "r": result, "s": projected state}.
//! The executor never judges anything: verdicts come from the TLA+ specification, either by
//! comparison with TLC-generated expectations or by TLC trace validation.

mod util;
#[macro_use]
mod types;
mod mk;
mod bitmap;
mod volatile;
mod guest;
mod addr;
mod endian;
mod streams;
mod regions;
mod sched;
mod copyw;
mod amap;
mod own;
mod ctor;

use std::io::{BufRead, BufWriter, Write};

fn main() {
    let args: Vec<String> = std::env::args().collect();
    if args.len() < 4 {
        eprintln!("usage: vmh <module> <program.ndjson> <out.ndjson>");
        std::process::exit(2);
    }
    // panics in the code under test are data; keep the default hook quiet
    std::panic::set_hook(Box::new(|_| {}));
    let module = args[1].as_str();
    let inp = std::io::BufReader::new(std::fs::File::open(&args[2]).expect("open program"));
    let mut out = BufWriter::new(std::fs::File::create(&args[3]).expect("create out"));
    let mut exec: Box<dyn util::Exec> = match module {
        "bitmap" => Box::new(bitmap::BitmapExec::default()),
        "volatile" => Box::new(volatile::VolExec::default()),
        "guest" => Box::new(guest::GuestExec::default()),
        "addr" => Box::new(addr::AddrExec::default()),
        "endian" => Box::new(endian::EndianExec::default()),
        "streams" => Box::new(streams::StreamExec::default()),
        "regions" => Box::new(regions::RegionsExec::default()),
        "sched" => Box::new(sched::SchedExec::default()),
        "copyw" => Box::new(copyw::CopyExec::default()),
        "amap" => Box::new(amap::AmapExec::default()),
        "own" => Box::new(own::OwnExec::default()),
        "ctor" => Box::new(ctor::CtorExec::default()),
        _ => {
            eprintln!("unknown module {module}");
            std::process::exit(2);
        }
    };
    for line in inp.lines() {
        let line = line.expect("read line");
        if line.trim().is_empty() {
            continue;
        }
        let v: serde_json::Value = serde_json::from_str(&line).expect("parse program line");
        let res = exec.step(&v);
        match res {
            serde_json::Value::Array(items) => {
                for it in items {
                    writeln!(out, "{}", it).unwrap();
                }
            }
            other => writeln!(out, "{}", other).unwrap(),
        }
        // flushed per line: if the code under test takes the process down, the orchestrator must know where
        out.flush().unwrap();
    }
    out.flush().unwrap();
}
