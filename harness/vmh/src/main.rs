//! vmh: executor of operation programs against the real vm-memory crate.
//!
//! usage: vmh <module> <program.ndjson> <out.ndjson>
//!
//! A program is a sequence of JSON lines {"op": .., "a": {..}}; an "init" op starts a new
//! history.  For every line the executor performs the operation on real vm-memory objects
//! (inside catch_unwind) and writes {"op", "a", "r": result, "s": projected state}.
//! The executor never judges anything: verdicts come from the TLA+ specification, either by
//! comparison with TLC-generated expectations or by TLC trace validation.

mod util;
#[macro_use]
mod types;
mod mk;
mod bitmap;
mod volatile;
mod guest;
mod addr;
mod endian;
mod streams;
mod regions;
mod sched;
mod copyw;
mod amap;
mod own;
mod ctor;
mod sys;
mod mord;

use std::io::{BufRead, BufWriter, Write};

fn main() {
    let args: Vec<String> = std::env::args().collect();
    if args.len() < 4 {
        eprintln!("usage: vmh <module> <program.ndjson> <out.ndjson>");
        std::process::exit(2);
    }
    // panics in the code under test are data; keep the default hook quiet
    // - except the harness' own complaints (bad program line, failed set-up), which are tool errors (exit 2)
    std::panic::set_hook(Box::new(|info| {
        let p = info.payload();
        let msg = p.downcast_ref::<&str>().map(|s| s.to_string()).or_else(|| p.downcast_ref::<String>().cloned()).unwrap_or_default();
        if msg.starts_with("harness:") {
            eprintln!("{msg}");
        }
    }));
    let module = args[1].as_str();
    let inp = std::io::BufReader::new(std::fs::File::open(&args[2]).expect("open program"));
    let mut out = BufWriter::new(std::fs::File::create(&args[3]).expect("create out"));
    let mut exec: Box<dyn util::Exec> = match module {
        "bitmap" => Box::new(bitmap::BitmapExec::default()),
        "volatile" => Box::new(volatile::VolExec::default()),
        "guest" => Box::new(guest::GuestExec::default()),
        "addr" => Box::new(addr::AddrExec::default()),
        "endian" => Box::new(endian::EndianExec::default()),
        "streams" => Box::new(streams::StreamExec::default()),
        "regions" => Box::new(regions::RegionsExec::default()),
        "sched" => Box::new(sched::SchedExec::default()),
        "copyw" => Box::new(copyw::CopyExec::default()),
        "amap" => Box::new(amap::AmapExec::default()),
        "own" => Box::new(own::OwnExec::default()),
        "sys" => Box::new(sys::SysExec::default()),
        "mord" => Box::new(mord::MordExec::default()),
        "ctor" => Box::new(ctor::CtorExec::default()),
        _ => {
            eprintln!("unknown module {module}");
            std::process::exit(2);
        }
    };
    // watchdog: an operation of the code under test that does not return within the limit is a hang - reported to
    // the orchestrator by exit status 103 (every completed event has been flushed, so it knows which line it was)
    let tick = std::sync::Arc::new(std::sync::atomic::AtomicU64::new(0));
    {
        let tick = tick.clone();
        // (one line of the schedule-enumerating modules is a whole scenario: thousands of schedules)
        let default_limit = if matches!(args[1].as_str(), "sched" | "amap" | "mord") { 3600 } else { 30 };
        let limit: u64 = std::env::var("VMH_OP_LIMIT_S").ok().and_then(|v| v.parse().ok()).unwrap_or(default_limit);
        std::thread::spawn(move || {
            let mut last = u64::MAX;
            let mut since = std::time::Instant::now();
            loop {
                std::thread::sleep(std::time::Duration::from_millis(200));
                let now = tick.load(std::sync::atomic::Ordering::SeqCst);
                if now != last {
                    last = now;
                    since = std::time::Instant::now();
                } else if now % 2 == 1 && since.elapsed().as_secs() >= limit {
                    eprintln!("watchdog: operation number {} did not return within {} s", now / 2 + 1, limit);
                    std::process::exit(103);
                }
            }
        });
    }
    let markers = std::env::var("VMH_MARKERS").is_ok();
    let mut opno = 0u64;
    for line in inp.lines() {
        let line = line.expect("read line");
        if line.trim().is_empty() {
            continue;
        }
        let v: serde_json::Value = serde_json::from_str(&line).expect("parse program line");
        if markers {
            // a recognisable no-op system call in front of every operation, for runs under strace
            opno += 1;
            let msg = format!("OP {opno}");
            unsafe { libc::write(-1, msg.as_ptr() as *const libc::c_void, msg.len()) };
        }
        tick.fetch_add(1, std::sync::atomic::Ordering::SeqCst); // odd: inside an operation
        let res = match std::panic::catch_unwind(std::panic::AssertUnwindSafe(|| exec.step(&v))) {
            Ok(r) => r,
            Err(e) => {
                let msg = e.downcast_ref::<&str>().map(|s| s.to_string()).or_else(|| e.downcast_ref::<String>().cloned()).unwrap_or_default();
                if msg.starts_with("harness:") {
                    std::process::exit(2);
                }
                // a panic of the code under test outside a guarded call: the orchestrator records it as a crash of this line
                std::process::exit(101);
            }
        };
        match res {
            serde_json::Value::Array(items) => {
                for it in items {
                    writeln!(out, "{}", it).unwrap();
                }
            }
            other => writeln!(out, "{}", other).unwrap(),
        }
        // flushed per line: if the code under test takes the process down, the orchestrator must know where
        out.flush().unwrap();
        tick.fetch_add(1, std::sync::atomic::Ordering::SeqCst); // even: between operations
    }
    out.flush().unwrap();
}
