//! Executor for AtomicMap (C11): reader and updater threads on a real GuestMemoryAtomic<GuestMemoryMmap>,
//! driven through the named schedule points of src/atomic.rs (hook H5) by a baton scheduler that picks a
//! seeded random thread at each point.  A thread that does not reach its next point within a grace
//! period is treated as blocked (on the update mutex) for SCHEDULING purposes only; verdicts come from
//! the logged events (TLC, Trace_AtomicMap).
use crate::sched::{annotate, Shared, St, NOT_SCHEDULED, TID};
use crate::util::*;
use serde_json::{json, Value};
use std::sync::{Arc, Condvar, Mutex};
use std::time::{Duration, Instant};
use vm_memory::verif::shim::set_atomic_hook;
use vm_memory::{
    Bytes, GuestAddress, GuestAddressSpace, GuestMemory, GuestMemoryAtomic, GuestMemoryLoadGuard, GuestMemoryMmap, GuestMemoryRegion,
    GuestRegionMmap, MmapRegion,
};

type M = GuestMemoryMmap<()>;

enum Handle {
    Guard(GuestMemoryLoadGuard<M>),
    Owned(Arc<M>),
}

fn new_region(idx: u64) -> Arc<GuestRegionMmap<()>> {
    let mr = MmapRegion::<()>::new(0x1000).expect("harness: mmap");
    let r = GuestRegionMmap::new(mr, GuestAddress(idx * 0x1000)).expect("harness: region");
    r.write_obj::<u8>(idx as u8, vm_memory::MemoryRegionAddress(0)).unwrap();
    Arc::new(r)
}

/// what a map looks like: region indices (start / 0x1000) and whether every region's tag byte is readable
fn observe(m: &M) -> Value {
    let mut regs = Vec::new();
    let mut ok = true;
    for r in m.iter() {
        let idx = r.start_addr().0 / 0x1000;
        regs.push(idx);
        match m.read_obj::<u8>(r.start_addr()) {
            Ok(b) if b as u64 == idx & 0xff => {}
            _ => ok = false,
        }
    }
    json!({"regs": regs, "ok": ok, "num": m.num_regions()})
}

fn run_thread(sh: &Arc<Shared>, atomic: &GuestMemoryAtomic<M>, tid: usize, ops: &[Value]) {
    let mut handles: Vec<Option<Handle>> = Vec::new();
    let mut updates = 0u64;
    for op in ops {
        let k = op["k"].as_str().expect("harness: op");
        match k {
            "snapshot" => {
                annotate(sh, json!({"kind": "snap.begin"}));
                let g = atomic.memory();
                let o = observe(&g);
                handles.push(Some(Handle::Guard(g)));
                annotate(sh, json!({"kind": "snap.end", "h": handles.len(), "obs": o}));
            }
            "clone" | "into_inner" | "reobserve" | "drop" => {
                let h = op["h"].as_u64().expect("harness: h") as usize;
                if h == 0 || h > handles.len() || handles[h - 1].is_none() {
                    continue;
                }
                match k {
                    "clone" => {
                        let c = match handles[h - 1].as_ref().unwrap() {
                            Handle::Guard(g) => Handle::Guard(g.clone()),
                            Handle::Owned(a) => Handle::Owned(a.clone()),
                        };
                        let o = match &c {
                            Handle::Guard(g) => observe(g),
                            Handle::Owned(a) => observe(a),
                        };
                        handles.push(Some(c));
                        annotate(sh, json!({"kind": "clone", "h": handles.len(), "from": h, "obs": o}));
                    }
                    "into_inner" => {
                        let c = match handles[h - 1].take().unwrap() {
                            Handle::Guard(g) => Handle::Owned(g.into_inner()),
                            other => other,
                        };
                        let o = match &c {
                            Handle::Guard(g) => observe(g),
                            Handle::Owned(a) => observe(a),
                        };
                        handles[h - 1] = Some(c);
                        annotate(sh, json!({"kind": "into_inner", "h": h, "obs": o}));
                    }
                    "reobserve" => {
                        let o = match handles[h - 1].as_ref().unwrap() {
                            Handle::Guard(g) => observe(g),
                            Handle::Owned(a) => observe(a),
                        };
                        annotate(sh, json!({"kind": "reobserve", "h": h, "obs": o}));
                    }
                    _ => {
                        handles[h - 1] = None;
                        annotate(sh, json!({"kind": "drop", "h": h}));
                    }
                }
            }
            "update" => {
                // lock; derive a new map from the CURRENT one; replace (store, then unlock)
                annotate(sh, json!({"kind": "upd.begin"}));
                // (a predecessor may have died holding the lock: a poisoned mutex still hands out its guard)
                let guard = match atomic.lock() {
                    Ok(g) => g,
                    Err(p) => p.into_inner(),
                };
                let cur = atomic.memory();
                let o = observe(&cur);
                updates += 1;
                let idx = (tid as u64 + 1) * 16 + updates;
                annotate(sh, json!({"kind": "upd.read", "obs": o, "add": idx}));
                let newmap = cur.insert_region(new_region(idx)).expect("harness: insert_region");
                drop(cur);
                guard.replace(newmap);
                annotate(sh, json!({"kind": "upd.end", "add": idx}));
            }
            "abort" => {
                // an updater that dies while it holds the update lock
                annotate(sh, json!({"kind": "upd.begin"}));
                let _ = std::panic::catch_unwind(std::panic::AssertUnwindSafe(|| {
                    let _guard = match atomic.lock() {
                        Ok(g) => g,
                        Err(p) => p.into_inner(),
                    };
                    annotate(sh, json!({"kind": "upd.abort.begin"}));
                    panic!("induced: the updater dies while it holds the update lock");
                }));
                annotate(sh, json!({"kind": "upd.abort"}));
            }
            o => panic!("harness: unknown amap op {o}"),
        }
    }
    // drop remaining handles (after the run the final map is observed by the controller)
    drop(handles);
}

#[derive(Default)]
pub struct AmapExec;

impl Exec for AmapExec {
    fn step(&mut self, line: &Value) -> Value {
        let nsched = line["a"]["schedules"].as_u64().unwrap_or(100) as usize;
        let mut seed = line["a"]["seed"].as_u64().unwrap_or(1).wrapping_mul(0x9E3779B97F4A7C15) | 1;
        let progs: Vec<Vec<Value>> = line["a"]["threads"].as_array().expect("harness: threads").iter().map(|p| p.as_array().unwrap().clone()).collect();
        let n = progs.len();
        let sh = Arc::new(Shared { m: Mutex::new(St::default()), cv: Condvar::new() });
        set_atomic_hook(Some(sh.clone()));
        let mut out: Vec<Value> = Vec::new();
        // exhaustive mode: depth-first enumeration of the scheduler's decisions (every choice among the threads parked at
        // a schedule point), up to `schedules` runs; otherwise a seeded random choice at every decision
        let exhaustive = line["a"]["exhaustive"].as_bool().unwrap_or(false);
        let grace = Duration::from_millis(if exhaustive { 8 } else { 4 });
        let mut path: Vec<(Vec<usize>, usize)> = Vec::new();
        let mut diverged = 0u64;
        let mut complete = false;
        for sched in 0..nsched {
            {
                let mut st = sh.m.lock().unwrap();
                *st = St { parked: vec![false; n], done: vec![false; n], last_idx: vec![None; n], pending_begin: vec![None; n], ..Default::default() };
            }
            let first = GuestMemoryMmap::from_arc_regions(vec![new_region(0)]).unwrap();
            let atomic = GuestMemoryAtomic::new(first);
            let mut joins = Vec::new();
            for (tid, prog) in progs.iter().enumerate() {
                let (sh, atomic, prog) = (sh.clone(), atomic.clone(), prog.clone());
                joins.push(std::thread::spawn(move || {
                    TID.with(|t| t.set(tid));
                    let r = std::panic::catch_unwind(std::panic::AssertUnwindSafe(|| run_thread(&sh, &atomic, tid, &prog)));
                    TID.with(|t| t.set(NOT_SCHEDULED));
                    let mut st = sh.m.lock().unwrap();
                    if r.is_err() {
                        st.log.push(json!({"t": tid + 1, "kind": "panic"}));
                    }
                    st.done[tid] = true;
                    st.turn = None;
                    sh.cv.notify_all();
                }));
            }
            // controller
            let mut depth = 0usize;
            loop {
                let mut st = sh.m.lock().unwrap();
                let mut last_change = Instant::now();
                let mut sig = (st.log.len(), st.parked.clone(), st.done.clone());
                loop {
                    let quiet = st.turn.is_none() && (0..n).all(|t| st.parked[t] || st.done[t]);
                    if quiet {
                        break;
                    }
                    let (g, _) = sh.cv.wait_timeout(st, Duration::from_millis(1)).unwrap();
                    st = g;
                    let now_sig = (st.log.len(), st.parked.clone(), st.done.clone());
                    if now_sig != sig {
                        sig = now_sig;
                        last_change = Instant::now();
                    } else if st.turn.is_none() && last_change.elapsed() > grace && (0..n).any(|t| st.parked[t]) {
                        break; // the others are blocked (update mutex): schedule among the parked ones
                    }
                }
                let enabled: Vec<usize> = (0..n).filter(|&t| st.parked[t] && !st.done[t]).collect();
                if enabled.is_empty() {
                    if (0..n).all(|t| st.done[t]) {
                        break;
                    }
                    continue;
                }
                let c = if exhaustive {
                    if depth < path.len() && path[depth].0 != enabled {
                        // the enabled set is not what the replayed prefix saw (blocked-detection is time based):
                        // forget the rest of the prefix and carry on from here
                        diverged += 1;
                        path.truncate(depth);
                    }
                    if depth == path.len() {
                        path.push((enabled.clone(), 0));
                    }
                    enabled[path[depth].1]
                } else {
                    seed = seed.wrapping_mul(6364136223846793005).wrapping_add(1442695040888963407);
                    enabled[((seed >> 33) as usize) % enabled.len()]
                };
                depth += 1;
                st.turn = Some(c);
                sh.cv.notify_all();
            }
            for j in joins {
                j.join().expect("harness: join");
            }
            let log = std::mem::take(&mut sh.m.lock().unwrap().log);
            out.push(json!({"op": "init", "a": {"threads": line["a"]["threads"], "sched": sched + 1, "exhaustive": exhaustive}}));
            for e in log {
                out.push(json!({"op": "step", "a": e}));
            }
            let fin = observe(&atomic.memory());
            if exhaustive {
                // next schedule: advance the deepest decision that still has an untried alternative
                path.truncate(depth);
                while let Some((en, idx)) = path.last() {
                    if idx + 1 < en.len() {
                        break;
                    }
                    path.pop();
                }
                match path.last_mut() {
                    Some(d) => d.1 += 1,
                    None => complete = true,
                }
            }
            out.push(json!({"op": "final", "a": {"obs": fin, "dfs_complete": complete, "diverged": diverged}}));
            if complete {
                break;
            }
        }
        set_atomic_hook(None);
        Value::Array(out)
    }
}
