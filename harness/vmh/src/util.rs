use serde_json::{json, Value};
use std::panic::{catch_unwind, AssertUnwindSafe};

pub trait Exec {
    /// Execute one program line, return the full event (op, a, r, s).
    fn step(&mut self, line: &Value) -> Value;
}

pub fn u(v: &Value, key: &str) -> u64 {
    v["a"][key]
        .as_u64()
        .unwrap_or_else(|| panic!("harness: missing numeric arg {key} in {v}"))
}

pub fn us(v: &Value, key: &str) -> usize {
    u(v, key) as usize
}

pub fn s<'a>(v: &'a Value, key: &str) -> &'a str {
    v["a"][key]
        .as_str()
        .unwrap_or_else(|| panic!("harness: missing string arg {key} in {v}"))
}

/// Run `f`, turning a panic of the code under test into the result "panic".
pub fn guarded<F: FnOnce() -> Value>(f: F) -> Value {
    match catch_unwind(AssertUnwindSafe(f)) {
        Ok(v) => v,
        Err(e) => {
            let msg = if let Some(s) = e.downcast_ref::<&str>() {
                s.to_string()
            } else if let Some(s) = e.downcast_ref::<String>() {
                s.clone()
            } else {
                "?".to_string()
            };
            if msg.starts_with("harness:") {
                eprintln!("{msg}");
                std::process::exit(2);
            }
            json!({"k": "panic", "msg": msg})
        }
    }
}

pub fn event(line: &Value, r: Value, s: Value) -> Value {
    json!({"op": line["op"], "a": line["a"], "r": r, "s": s})
}

pub fn unit() -> Value {
    json!({"k": "unit"})
}

pub fn boolv(b: bool) -> Value {
    json!({"k": "bool", "v": b})
}
