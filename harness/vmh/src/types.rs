//! element-type dispatch shared by the executors
use vm_memory::ByteValued;

macro_rules! with_ty {
    ($esz:expr, $T:ident, $body:block) => {
        match $esz {
            0 => { type $T = [u8; 0]; $body }
            1 => { type $T = u8; $body }
            2 => { type $T = u16; $body }
            3 => { type $T = [u8; 3]; $body }
            4 => { type $T = u32; $body }
            5 => { type $T = [u8; 5]; $body }
            6 => { type $T = [u16; 3]; $body }
            7 => { type $T = [u8; 7]; $body }
            8 => { type $T = u64; $body }
            12 => { type $T = [u32; 3]; $body }
            16 => { type $T = u128; $body }
            e => panic!("harness: unsupported element size {e}"),
        }
    };
}

macro_rules! with_aligned_ty {
    ($esz:expr, $al:expr, $T:ident, $body:block) => {
        match ($esz, $al) {
            (1, 1) => { type $T = u8; $body }
            (2, 1) => { type $T = [u8; 2]; $body }
            (3, 1) => { type $T = [u8; 3]; $body }
            (4, 1) => { type $T = [u8; 4]; $body }
            (5, 1) => { type $T = [u8; 5]; $body }
            (6, 1) => { type $T = [u8; 6]; $body }
            (7, 1) => { type $T = [u8; 7]; $body }
            (8, 1) => { type $T = [u8; 8]; $body }
            (12, 1) => { type $T = [u8; 12]; $body }
            (16, 1) => { type $T = [u8; 16]; $body }
            (2, 2) => { type $T = u16; $body }
            (4, 2) => { type $T = [u16; 2]; $body }
            (6, 2) => { type $T = [u16; 3]; $body }
            (8, 2) => { type $T = [u16; 4]; $body }
            (12, 2) => { type $T = [u16; 6]; $body }
            (16, 2) => { type $T = [u16; 8]; $body }
            (4, 4) => { type $T = u32; $body }
            (8, 4) => { type $T = [u32; 2]; $body }
            (12, 4) => { type $T = [u32; 3]; $body }
            (16, 4) => { type $T = [u32; 4]; $body }
            (8, 8) => { type $T = u64; $body }
            (16, 8) => { type $T = [u64; 2]; $body }
            (16, 16) => { type $T = u128; $body }
            (e, a) => panic!("harness: unsupported (size, align) ({e}, {a})"),
        }
    };
}

macro_rules! with_atomic_ty {
    ($esz:expr, $T:ident, $body:block) => {
        match $esz {
            1 => { type $T = u8; $body }
            2 => { type $T = u16; $body }
            4 => { type $T = u32; $body }
            8 => { type $T = u64; $body }
            e => panic!("harness: unsupported atomic width {e}"),
        }
    };
}

pub fn bv<T: ByteValued>(v: &T) -> &[u8] {
    ByteValued::as_slice(v)
}

pub fn from_bytes<T: ByteValued>(b: &[u8]) -> T {
    let mut v = T::zeroed();
    v.as_mut_slice().copy_from_slice(b);
    v
}

pub fn elems<T: ByteValued>(b: &[u8]) -> Vec<T> {
    let sz = std::mem::size_of::<T>();
    if sz == 0 {
        return Vec::new();
    }
    b.chunks_exact(sz).map(from_bytes::<T>).collect()
}

pub fn bytes_of<T: ByteValued>(v: &[T]) -> Vec<u8> {
    let mut out = Vec::new();
    for x in v {
        out.extend_from_slice(x.as_slice());
    }
    out
}

