//! Region construction for the Xen build: the UNIX mapping type of MmapRegion::from_range (the bitmap is created
//! by the library with the system page size, so traces of this build use page size 4096).
use std::num::NonZeroUsize;
use vm_memory::bitmap::AtomicBitmap;
use vm_memory::mmap::{MmapRange, MmapRegion};
use vm_memory::{FileOffset, GuestAddress};

pub fn make_region(n: usize, page: NonZeroUsize, file: Option<FileOffset>, guest_base: u64) -> MmapRegion<AtomicBitmap> {
    assert_eq!(page.get(), 4096, "harness: the Xen build tracks dirty pages at the system page size only");
    let mut range = MmapRange::new_unix(n, file, GuestAddress(guest_base));
    range.set_prot(libc::PROT_READ | libc::PROT_WRITE);
    MmapRegion::<AtomicBitmap>::from_range(range).expect("harness: from_range")
}
