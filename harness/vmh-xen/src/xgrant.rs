//! Executor for XenGrant (C17, Xen build): accesses to regions backed by the emulated grant device
//! (hook H4).  A plain file is guest RAM: grant reference g is page g of the file, so a byte at guest
//! address A lives at file offset A.  For every operation the device log (map / unmap requests) and the
//! bytes found in the file afterwards are reported.  Operations that dereference the region address
//! without a pointer guard run in a forked child so that a fault is data, not a harness failure.
use crate::types::*;
use crate::util::*;
use serde_json::{json, Value};
use std::os::unix::fs::FileExt;
use std::sync::atomic::Ordering;
use vm_memory::mmap::xen_verif::{take_log, DevEvent};
use vm_memory::mmap::{MmapRange, MmapRegion, MmapXenFlags};
use vm_memory::{
    AtomicAccess, ByteValued, Bytes, FileOffset, GuestAddress, GuestMemory, GuestMemoryMmap, GuestMemoryRegion, GuestRegionMmap,
    VolatileMemory,
};

#[derive(Default)]
pub struct XGrantExec {
    gm: Option<GuestMemoryMmap<()>>,
    file: Option<std::sync::Arc<std::fs::File>>,
    base: u64,
    size: usize,
    kind: String,
}

fn dev_json(log: &[DevEvent]) -> Vec<Value> {
    log.iter()
        .map(|e| match e {
            DevEvent::Map(i, c, d) => json!({"k": "map", "index": i, "count": c, "domid": d}),
            DevEvent::Unmap(i, c) => json!({"k": "unmap", "index": i, "count": c}),
            DevEvent::Foreign(n, d) => json!({"k": "foreign", "count": n, "domid": d}),
            DevEvent::Failed(k) => json!({"k": "failed", "what": k}),
        })
        .collect()
}

fn gerr_short<E: std::fmt::Debug>(e: &E) -> Value {
    json!({"k": "err", "e": format!("{:?}", e).split(|c: char| !c.is_alphanumeric()).next().unwrap_or("").to_string()})
}

const UNGUARDED: [&str; 7] = ["g_store", "g_load", "s_get_atomic_ref", "s_aligned_as_ref", "s_copy_to_volatile_slice",
                              "s_arr_copy_to_volatile_slice", "s_aligned_as_mut"];

impl XGrantExec {
    fn region(&self) -> &GuestRegionMmap<()> {
        self.gm.as_ref().unwrap().iter().next().unwrap()
    }

    fn run(&self, op: &str, line: &Value) -> Value {
        let gm = self.gm.as_ref().unwrap();
        let g = |k: &str| us(line, k);
        let bytes = |k: &str| -> Vec<u8> { line["a"][k].as_array().expect("harness: bytes").iter().map(|x| x.as_u64().unwrap() as u8).collect() };
        let ga = |k: &str| GuestAddress(u(line, k));
        let vs = || self.region().as_volatile_slice().expect("harness: as_volatile_slice");
        match op {
            "g_write" => match gm.write(&bytes("buf"), ga("addr")) {
                Ok(n) => json!({"k": "ok", "n": n}),
                Err(e) => gerr_short(&e),
            },
            "g_read" => {
                let mut b = vec![0u8; g("bl")];
                match gm.read(&mut b, ga("addr")) {
                    Ok(n) => json!({"k": "ok", "n": n, "data": b[..n.min(b.len())]}),
                    Err(e) => gerr_short(&e),
                }
            }
            "g_write_obj" => {
                let b = bytes("buf");
                with_ty!(b.len(), T, {
                    match gm.write_obj::<T>(from_bytes::<T>(&b), ga("addr")) {
                        Ok(()) => json!({"k": "ok", "n": b.len()}),
                        Err(e) => gerr_short(&e),
                    }
                })
            }
            "g_read_obj" => {
                let esz = g("esz");
                with_ty!(esz, T, {
                    match gm.read_obj::<T>(ga("addr")) {
                        Ok(v) => json!({"k": "ok", "n": esz, "data": bv(&v)}),
                        Err(e) => gerr_short(&e),
                    }
                })
            }
            "g_read_from" => {
                let srcb = bytes("src");
                let mut rd: &[u8] = &srcb;
                match gm.read_volatile_from(ga("addr"), &mut rd, g("count")) {
                    Ok(n) => json!({"k": "ok", "n": n}),
                    Err(e) => gerr_short(&e),
                }
            }
            "g_write_to" => {
                let mut sink: Vec<u8> = Vec::new();
                match gm.write_volatile_to(ga("addr"), &mut sink, g("count")) {
                    Ok(n) => json!({"k": "ok", "n": n, "data": sink}),
                    Err(e) => gerr_short(&e),
                }
            }
            // the same two through a real descriptor: the raw-fd helpers hand the guard's pointer to read(2) / write(2)
            "g_read_from_fd" => {
                use std::io::{Seek, SeekFrom, Write};
                let srcb = bytes("src");
                let path = format!("/tmp/vmh-xg-fd-{}", std::process::id());
                let mut f = std::fs::OpenOptions::new().read(true).write(true).create(true).truncate(true).open(&path).expect("harness: file");
                f.write_all(&srcb).unwrap();
                f.seek(SeekFrom::Start(0)).unwrap();
                let _ = std::fs::remove_file(&path);
                match gm.read_volatile_from(ga("addr"), &mut f, g("count")) {
                    Ok(n) => json!({"k": "ok", "n": n}),
                    Err(e) => gerr_short(&e),
                }
            }
            "g_write_to_fd" => {
                use std::os::unix::fs::FileExt;
                let path = format!("/tmp/vmh-xg-fd-{}", std::process::id());
                let mut f = std::fs::OpenOptions::new().read(true).write(true).create(true).truncate(true).open(&path).expect("harness: file");
                let _ = std::fs::remove_file(&path);
                match gm.write_volatile_to(ga("addr"), &mut f, g("count")) {
                    Ok(n) => {
                        let mut sink = vec![0u8; f.metadata().unwrap().len() as usize];
                        f.read_exact_at(&mut sink, 0).unwrap();
                        json!({"k": "ok", "n": n, "data": sink})
                    }
                    Err(e) => gerr_short(&e),
                }
            }
            "g_store" => {
                let b = bytes("buf");
                with_atomic_ty!(b.len(), T, {
                    match gm.store::<T>(from_bytes::<T>(&b), ga("addr"), Ordering::SeqCst) {
                        Ok(()) => json!({"k": "ok", "n": b.len()}),
                        Err(e) => gerr_short(&e),
                    }
                })
            }
            "g_load" => {
                let esz = g("esz");
                with_atomic_ty!(esz, T, {
                    match gm.load::<T>(ga("addr"), Ordering::SeqCst) {
                        Ok(v) => json!({"k": "ok", "n": esz, "data": bv(&v)}),
                        Err(e) => gerr_short(&e),
                    }
                })
            }
            "s_ref_store" => {
                let b = bytes("buf");
                with_ty!(b.len(), T, {
                    match vs().get_ref::<T>(g("off")) {
                        Ok(r) => {
                            r.store(from_bytes::<T>(&b));
                            json!({"k": "ok", "n": b.len()})
                        }
                        Err(e) => gerr_short(&e),
                    }
                })
            }
            "s_ref_load" => {
                let esz = g("esz");
                with_ty!(esz, T, {
                    match vs().get_ref::<T>(g("off")) {
                        Ok(r) => json!({"k": "ok", "n": esz, "data": bv(&r.load())}),
                        Err(e) => gerr_short(&e),
                    }
                })
            }
            "s_arr_copy_from" => {
                let (esz, n) = (g("esz"), g("n"));
                let b = bytes("buf");
                with_ty!(esz, T, {
                    match vs().get_array_ref::<T>(g("off"), n) {
                        Ok(a) => {
                            a.copy_from(&elems::<T>(&b));
                            json!({"k": "ok", "n": (b.len() / esz.max(1)).min(n) * esz})
                        }
                        Err(e) => gerr_short(&e),
                    }
                })
            }
            "s_arr_copy_to" => {
                let (esz, n) = (g("esz"), g("n"));
                with_ty!(esz, T, {
                    match vs().get_array_ref::<T>(g("off"), n) {
                        Ok(a) => {
                            let mut b: Vec<T> = vec![T::zeroed(); n];
                            let c = a.copy_to(&mut b);
                            json!({"k": "ok", "n": c * esz, "data": bytes_of(&b[..c])})
                        }
                        Err(e) => gerr_short(&e),
                    }
                })
            }
            "s_arr_store" => {
                let (esz, n) = (g("esz"), g("n"));
                let b = bytes("buf");
                with_ty!(esz, T, {
                    match vs().get_array_ref::<T>(g("off"), n) {
                        Ok(a) => {
                            a.store(g("i"), from_bytes::<T>(&b));
                            json!({"k": "ok", "n": esz})
                        }
                        Err(e) => gerr_short(&e),
                    }
                })
            }
            "s_arr_load" => {
                let (esz, n) = (g("esz"), g("n"));
                with_ty!(esz, T, {
                    match vs().get_array_ref::<T>(g("off"), n) {
                        Ok(a) => json!({"k": "ok", "n": esz, "data": bv(&a.load(g("i")))}),
                        Err(e) => gerr_short(&e),
                    }
                })
            }
            "s_copy_from_u8" => {
                let b = bytes("buf");
                match vs().get_slice(g("off"), g("len")) {
                    Ok(s) => {
                        s.copy_from::<u8>(&b);
                        json!({"k": "ok", "n": b.len().min(g("len"))})
                    }
                    Err(e) => gerr_short(&e),
                }
            }
            "s_copy_to_u8" => match vs().get_slice(g("off"), g("len")) {
                Ok(s) => {
                    let mut b = vec![0u8; g("bl")];
                    let c = s.copy_to::<u8>(&mut b);
                    json!({"k": "ok", "n": c, "data": b[..c]})
                }
                Err(e) => gerr_short(&e),
            },
            "ptr_guard" => match vs().get_slice(g("off"), g("len")) {
                Ok(s) => {
                    let gd = s.ptr_guard_mut();
                    let during = dev_json(&take_log());
                    let first: u8 = if g("len") > 0 { unsafe { std::ptr::read_volatile(gd.as_ptr()) } } else { 0 };
                    let l = gd.len();
                    drop(gd);
                    json!({"k": "ok", "n": l, "during": during, "first": first})
                }
                Err(e) => gerr_short(&e),
            },
            // ---- operations that use the region address without a pointer guard ----
            "s_get_atomic_ref" => {
                let esz = g("esz");
                with_atomic_ty!(esz, T, {
                    match vs().get_atomic_ref::<<T as AtomicAccess>::A>(g("off")) {
                        Ok(r) => {
                            let v: T = r.load(Ordering::SeqCst).into();
                            json!({"k": "ok", "n": esz, "data": bv(&v)})
                        }
                        Err(e) => gerr_short(&e),
                    }
                })
            }
            "s_aligned_as_ref" | "s_aligned_as_mut" => {
                let esz = g("esz");
                with_atomic_ty!(esz, T, {
                    let r = unsafe { vs().aligned_as_ref::<T>(g("off")).map(|x| *x) };
                    match r {
                        Ok(v) => json!({"k": "ok", "n": esz, "data": bv(&v)}),
                        Err(e) => gerr_short(&e),
                    }
                })
            }
            "s_copy_to_volatile_slice" => {
                let whole = vs();
                let src = whole.get_slice(g("off"), g("len")).expect("harness: src slice");
                let dst = whole.get_slice(g("to"), g("len")).expect("harness: dst slice");
                src.copy_to_volatile_slice(dst);
                json!({"k": "ok", "n": g("len")})
            }
            "s_arr_copy_to_volatile_slice" => {
                let whole = vs();
                let a = whole.get_array_ref::<u16>(g("off"), g("len") / 2).expect("harness: array");
                let dst = whole.get_slice(g("to"), g("len")).expect("harness: dst slice");
                a.copy_to_volatile_slice(dst);
                json!({"k": "ok", "n": g("len") / 2 * 2})
            }
            o => panic!("harness: unknown xgrant op {o}"),
        }
    }

    fn file_bytes(&self, addr: u64, n: usize) -> Vec<u8> {
        let mut v = vec![0u8; n];
        let _ = self.file.as_ref().unwrap().read_at(&mut v, addr);
        v
    }
}

impl Exec for XGrantExec {
    fn step(&mut self, line: &Value) -> Value {
        let op = line["op"].as_str().expect("op");
        if op == "init" {
            self.gm = None;
            let _ = take_log();
            let kind = s(line, "kind").to_string();
            let pages = us(line, "pages");
            let base = u(line, "base");
            let size = us(line, "size");
            let path = std::env::temp_dir().join(format!("vmh-xen-{}", std::process::id()));
            let f = std::fs::OpenOptions::new().read(true).write(true).create(true).truncate(true).open(&path).expect("harness: file");
            let _ = std::fs::remove_file(&path);
            let total = pages * 4096;
            let fill: Vec<u8> = (0..total).map(|i| ((i * 7 + i / 4096) % 251 + 1) as u8).collect();
            // the backing file stands for guest RAM (file offset = guest address): the pattern is laid around the region,
            // wherever in the address space it is (a sparse file: a base of 4 GiB costs nothing)
            f.write_all_at(&fill, base.saturating_sub(8192)).expect("harness: fill");
            let f = std::sync::Arc::new(f);
            let flags = match kind.as_str() {
                "ondemand" => (MmapXenFlags::GRANT | MmapXenFlags::NO_ADVANCE_MAP).bits(),
                "advance" => MmapXenFlags::GRANT.bits(),
                "foreign" => MmapXenFlags::FOREIGN.bits(),
                _ => MmapXenFlags::UNIX.bits(),
            };
            // unix kind maps the file at offset `base` so that region offset k is file offset base + k as well
            let fo = if kind == "unix" { FileOffset::from_arc(f.clone(), base) } else { FileOffset::from_arc(f.clone(), 0) };
            let range = MmapRange::new(size, Some(fo), GuestAddress(base), flags, 7);
            let r = guarded(|| match MmapRegion::<()>::from_range(range) {
                Ok(region) => {
                    let gr = GuestRegionMmap::new(region, GuestAddress(base)).expect("harness: GuestRegionMmap");
                    self.gm = Some(GuestMemoryMmap::from_regions(vec![gr]).expect("harness: map"));
                    json!({"k": "ok"})
                }
                Err(e) => gerr_short(&e),
            });
            self.file = Some(f);
            self.base = base;
            self.size = size;
            self.kind = kind;
            let dev = dev_json(&take_log());
            return json!({"op": op, "a": line["a"], "r": r, "dev": dev});
        }
        if op == "drop" {
            self.gm = None;
            let dev = dev_json(&take_log());
            return json!({"op": op, "a": line["a"], "r": {"k": "ok"}, "dev": dev});
        }
        // range of the file this operation names (for the before / after snapshots)
        let a = &line["a"];
        let elem = if op == "s_arr_load" || op == "s_arr_store" { a["i"].as_u64().unwrap_or(0) * a["esz"].as_u64().unwrap_or(0) } else { 0 };
        let start = a["addr"].as_u64().unwrap_or_else(|| self.base + a["off"].as_u64().unwrap_or(0) + elem);
        let span = a["buf"].as_array().map(|b| b.len()).or(a["bl"].as_u64().map(|x| x as usize)).or(a["count"].as_u64().map(|x| x as usize))
            .or(a["len"].as_u64().map(|x| x as usize))
            .or(a["esz"].as_u64().map(|e| e as usize * a["n"].as_u64().unwrap_or(1) as usize))
            .unwrap_or(0)
            .min(4096);
        let before = self.file_bytes(start, span);
        let (r, dev) = if UNGUARDED.contains(&op) && self.kind == "ondemand" {
            // forked child: a fault must not take the harness down
            let mut fds = [0i32; 2];
            unsafe { libc::pipe(fds.as_mut_ptr()) };
            let pid = unsafe { libc::fork() };
            if pid == 0 {
                let r = guarded(|| self.run(op, line));
                let msg = json!({"r": r, "dev": dev_json(&take_log())}).to_string();
                unsafe {
                    libc::write(fds[1], msg.as_ptr() as *const libc::c_void, msg.len());
                    libc::_exit(0);
                }
            }
            unsafe { libc::close(fds[1]) };
            let mut buf = Vec::new();
            let mut tmp = [0u8; 4096];
            loop {
                let n = unsafe { libc::read(fds[0], tmp.as_mut_ptr() as *mut libc::c_void, tmp.len()) };
                if n <= 0 {
                    break;
                }
                buf.extend_from_slice(&tmp[..n as usize]);
            }
            unsafe { libc::close(fds[0]) };
            let mut status = 0i32;
            unsafe { libc::waitpid(pid, &mut status, 0) };
            if libc::WIFSIGNALED(status) {
                (json!({"k": "signal", "sig": libc::WTERMSIG(status)}), Vec::new())
            } else {
                let v: Value = serde_json::from_slice(&buf).unwrap_or(json!({"r": {"k": "lost"}, "dev": []}));
                (v["r"].clone(), v["dev"].as_array().cloned().unwrap_or_default())
            }
        } else {
            let r = guarded(|| self.run(op, line));
            (r, dev_json(&take_log()))
        };
        let after = self.file_bytes(start, span);
        json!({"op": op, "a": line["a"], "r": r, "dev": dev, "before": before, "after": after})
    }
}
