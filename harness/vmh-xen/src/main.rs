//! vmh-xen: executor of operation programs against vm-memory built with the `xen` feature
//! (emulated grant / privcmd devices, hook H4).  usage: vmh-xen <module> <program.ndjson> <out.ndjson>
#[path = "../../vmh/src/util.rs"]
mod util;
#[macro_use]
#[path = "../../vmh/src/types.rs"]
mod types;
mod mk;
#[path = "../../vmh/src/guest.rs"]
mod guest;
mod xgrant;
mod xctor;

use std::io::{BufRead, BufWriter, Write};

fn main() {
    let args: Vec<String> = std::env::args().collect();
    if args.len() < 4 {
        eprintln!("usage: vmh-xen <module> <program.ndjson> <out.ndjson>");
        std::process::exit(2);
    }
    std::panic::set_hook(Box::new(|_| {}));
    let inp = std::io::BufReader::new(std::fs::File::open(&args[2]).expect("open program"));
    let mut out = BufWriter::new(std::fs::File::create(&args[3]).expect("create out"));
    let mut exec: Box<dyn util::Exec> = match args[1].as_str() {
        "xgrant" => Box::new(xgrant::XGrantExec::default()),
        "xctor" => Box::new(xctor::XCtorExec::default()),
        "guest" => Box::new(guest::GuestExec::default()),
        m => {
            eprintln!("unknown module {m}");
            std::process::exit(2);
        }
    };
    for line in inp.lines() {
        let line = line.expect("read line");
        if line.trim().is_empty() {
            continue;
        }
        let v: serde_json::Value = serde_json::from_str(&line).expect("parse program line");
        let res = exec.step(&v);
        writeln!(out, "{}", res).unwrap();
        out.flush().unwrap(); // operations may run in forked children
    }
}
