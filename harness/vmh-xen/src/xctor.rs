//! Executor for XenCtor (C15, Xen build): MmapRegion::from_range over every mapping-type flag word,
//! backing-file / offset / size combination, with the emulated devices (hook H4) optionally failing.
use crate::util::*;
use serde_json::{json, Value};
use std::os::unix::fs::FileExt;
use vm_memory::mmap::xen_verif::{fail_next, reset, take_log, DevEvent};
use vm_memory::mmap::{MmapRange, MmapRegion, MmapRegionError};
use vm_memory::{Bytes, FileOffset, GuestAddress, GuestMemoryRegion, GuestRegionMmap, MemoryRegionAddress};

#[derive(Default)]
pub struct XCtorExec {
    n: usize,
}

pub fn mapped_bytes_of(name: &str) -> usize {
    let txt = std::fs::read_to_string("/proc/self/maps").expect("harness: /proc/self/maps");
    let mut bytes = 0;
    for line in txt.lines() {
        if line.ends_with(name) {
            let range = line.split_whitespace().next().unwrap();
            let (a, b) = range.split_once('-').unwrap();
            bytes += usize::from_str_radix(b, 16).unwrap() - usize::from_str_radix(a, 16).unwrap();
        }
    }
    bytes
}

fn err_name(e: &MmapRegionError) -> &'static str {
    match e {
        MmapRegionError::InvalidOffsetLength => "InvalidOffsetLength",
        MmapRegionError::MapFixed => "MapFixed",
        MmapRegionError::MappingPastEof => "MappingPastEof",
        MmapRegionError::Mmap(_) => "Mmap",
        MmapRegionError::SeekEnd(_) => "SeekEnd",
        MmapRegionError::SeekStart(_) => "SeekStart",
        MmapRegionError::InvalidFileOffset => "InvalidFileOffset",
        MmapRegionError::MappedInAdvance => "MappedInAdvance",
        MmapRegionError::MmapFlags(_) => "MmapFlags",
        MmapRegionError::Fam(_) => "Fam",
        MmapRegionError::UnexpectedError => "UnexpectedError",
    }
}

impl Exec for XCtorExec {
    fn step(&mut self, line: &Value) -> Value {
        reset();
        if line["op"] == "wrap" {
            // a file-backed mapping given a guest range: GuestRegionMmap::new(mapping, base)
            self.n += 1;
            let size = us(line, "size");
            let gbase = u(line, "gbase");
            let name = format!("/tmp/vmh-xctor-{}-{}", std::process::id(), self.n);
            let f = std::fs::OpenOptions::new().read(true).write(true).create(true).truncate(true).open(&name).expect("harness: file");
            f.set_len(3 * 4096).unwrap();
            let before = mapped_bytes_of(&name);
            let mut r = guarded(|| {
                let region = MmapRegion::<()>::from_range(MmapRange::new_unix(size, Some(FileOffset::new(f.try_clone().expect("harness: dup"), 0)), GuestAddress(gbase)))
                    .expect("harness: from_range");
                let mapped = mapped_bytes_of(&name);
                let res = match line["a"]["api"].as_str().unwrap_or("new") {
                    // the convenience constructors create the mapping themselves
                    "from_range_file" => {
                        drop(region);
                        GuestRegionMmap::<()>::from_range(GuestAddress(gbase), size, Some(FileOffset::new(f.try_clone().expect("harness: dup"), 0)))
                    }
                    "from_range_anon" => {
                        drop(region);
                        GuestRegionMmap::<()>::from_range(GuestAddress(gbase), size, None)
                    }
                    _ => GuestRegionMmap::new(region, GuestAddress(gbase)),
                };
                match res {
                    Ok(g) => json!({"k": "ok", "start": g.start_addr().0, "len": g.len(), "last": g.last_addr().0, "mapped": mapped}),
                    Err(_) => json!({"k": "err", "e": "InvalidGuestRegion"}),
                }
            });
            r["left_mapped"] = json!(mapped_bytes_of(&name).saturating_sub(before));
            let _ = std::fs::remove_file(&name);
            return json!({"op": "wrap", "a": line["a"], "r": r});
        }
        self.n += 1;
        let size = us(line, "size");
        let flen = u(line, "flen");
        let foff = u(line, "foff");
        let mflags = u(line, "mflags") as u32;
        let base = u(line, "base");
        let has_file = line["a"]["file"].as_bool().unwrap_or(true);
        let fixed = line["a"]["fixed"].as_bool().unwrap_or(false);
        let defaults = line["a"]["defaults"].as_bool().unwrap_or(false);
        let name = format!("/tmp/vmh-xctor-{}-{}", std::process::id(), self.n);
        let f = std::fs::OpenOptions::new().read(true).write(true).create(true).truncate(true).open(&name).expect("harness: file");
        f.set_len(flen).unwrap();
        let f = std::sync::Arc::new(f);
        let fo = if has_file { Some(FileOffset::from_arc(f.clone(), foff)) } else { None };
        let mut range = MmapRange::new(size, fo, GuestAddress(base), mflags, 5);
        let fx = if fixed { libc::MAP_FIXED } else { 0 };
        if !has_file {
            // without a backing file only an anonymous mapping can work (the defaults are for shared file mappings)
            range.set_flags(libc::MAP_ANONYMOUS | libc::MAP_PRIVATE | fx);
        } else if !defaults {
            range.set_prot(libc::PROT_READ | libc::PROT_WRITE);
            range.set_flags(libc::MAP_SHARED | fx);
        } else if fixed {
            range.set_flags(libc::MAP_SHARED | libc::MAP_FIXED);
        }
        let req_prot = line["a"]["prot"].as_i64().map(|p| p as i32);
        if let Some(p) = req_prot {
            range.set_prot(p);
        }
        let rw = req_prot.map(|p| p & 3 == 3).unwrap_or(true);
        if let Some(k) = line["a"]["fail"].as_str() {
            match k {
                "map" => fail_next("map"),
                "foreign" => fail_next("foreign"),
                _ => {}
            }
        }
        let before = mapped_bytes_of(&name);
        let mut kept_maps = 0i64;
        let mut r = guarded(|| match MmapRegion::<()>::from_range(range) {
            Ok(region) => {
                // a failure injection that construction did not consume must not hit the probes below
                let log0 = take_log();
                reset();
                for e in log0 {
                    match e {
                        DevEvent::Map(..) => kept_maps += 1,
                        DevEvent::Unmap(..) => kept_maps -= 1,
                        _ => {}
                    }
                }
                let mut v = json!({"k": "ok", "size": region.size(), "prot": region.prot(), "flags": region.flags(),
                                   "has_file": region.file_offset().is_some(),
                                   "foff": region.file_offset().map(|f| f.start()).unwrap_or(0),
                                   "xflags": region.xen_mmap_flags(), "xdata": region.xen_mmap_data(),
                                   "mapped": mapped_bytes_of(&name)});
                // coherence: byte i of the region <-> byte of the file, both directions (through the Bytes interface)
                if size > 0 && has_file && rw {
                    let file_at = |i: u64| -> u64 {
                        // advance-mapped grants and foreign mappings are addressed by guest address / from file offset 0
                        if mflags & 2 != 0 { base + i } else if mflags & 1 != 0 { i } else { foff + i }
                    };
                    // the emulated devices are backed by a plain file: only probe bytes that exist in it
                    if file_at(size as u64 - 1) >= flen {
                        return v;
                    }
                    if let Ok(gr) = GuestRegionMmap::new(region, GuestAddress(base)) {
                        let mut coh = true;
                        for i in [0u64, (size as u64 - 1) / 2, size as u64 - 1] {
                            let val = (i % 200) as u8 + 17;
                            if gr.write_obj::<u8>(val, MemoryRegionAddress(i)).is_err() {
                                coh = false;
                                continue;
                            }
                            let mut b = [0u8; 1];
                            if f.read_at(&mut b, file_at(i)).unwrap_or(0) != 1 || b[0] != val {
                                coh = false;
                            }
                            let val2 = val ^ 0x5a;
                            if f.write_at(&[val2], file_at(i)).is_err() {
                                coh = false;
                            }
                            match gr.read_obj::<u8>(MemoryRegionAddress(i)) {
                                Ok(x) if x == val2 => {}
                                _ => coh = false,
                            }
                        }
                        v["coherent"] = json!(coh);
                        drop(gr);
                    }
                }
                v
            }
            Err(e) => json!({"k": "err", "e": err_name(&e)}),
        });
        r["left_mapped"] = json!(mapped_bytes_of(&name) - before.min(mapped_bytes_of(&name)));
        let log = take_log();
        let live: i64 = kept_maps + log.iter().map(|e| match e { DevEvent::Map(..) => 1, DevEvent::Unmap(..) => -1, _ => 0 }).sum::<i64>();
        r["live_grants"] = json!(live);
        let _ = std::fs::remove_file(&name);
        json!({"op": "from_range", "a": line["a"], "r": r})
    }
}
