----------------------------- MODULE BitmapConc -----------------------------
(***************************************************************************)
(* Marking pages dirty while other threads fetch-and-clear the bitmap      *)
(* (C08).  The bitmap is a vector of words (sets of bit positions); every  *)
(* operation of AtomicBitmap is a per-thread sequence of ATOMIC STEPS on   *)
(* single words, as in the code:                                           *)
(*   mark / set_bit        one fetch_or per page, in page order            *)
(*   reset_range/reset_bit one fetch_and(!bit) per page                    *)
(*   harvest (get_and_reset) one fetch_and(0) per word, collecting the     *)
(*                         values found                                    *)
(*   reset                 one store(0) per word                           *)
(*   clone                 one load per word                               *)
(* TLC explores every interleaving of the steps of 2..3 threads.           *)
(*                                                                         *)
(* The accounting rules (what a step of which operation may clear or set,  *)
(* what a harvest must return) are stated over GENERIC atomic-memory       *)
(* events, so that the same definitions judge recorded executions of the   *)
(* real code in Trace_BitmapConc whatever decomposition into atomic steps  *)
(* the implementation uses.                                                *)
(***************************************************************************)
EXTENDS BitmapRules, FiniteSets, Sequences, TLC

CONSTANTS WB,          \* bits per word (64 in the code; 4 in small configurations)
          NP,          \* number of pages of the bitmap
          Scenarios,   \* set of scenarios: a scenario is a sequence (one entry per thread) of sequences of operations
          Split        \* TRUE: every read-modify-write is performed as load; store (the broken variant)

NW == (NP + WB - 1) \div WB
Words == 0 .. NW - 1
AllPages == 0 .. NP - 1

PageOfBit(j, b) == j * WB + b
PagesOf(j, bits) == {PageOfBit(j, b) : b \in bits}

Target(op) == TargetN(op, NP)
MayClear(op) == MayClearN(op, NP)
MaySet(op) == MaySetN(op, NP)

\* ---- the model: step machines ------------------------------------------------
VARIABLES w,        \* word -> set of bits
          prog,     \* thread -> sequence of operations (chosen at Init from Scenarios)
          pc,       \* thread -> <<operation index, step index>>
          tmp,      \* thread -> value loaded by the first half of a split read-modify-write ({} when none pending)
          half,     \* thread -> TRUE when the load half of a split RMW has been done
          acc,      \* thread -> pages collected by the running harvest / clone
          marked,   \* pages whose mark operation has completed
          everMarked, harvested, clearedExplicit,
          stray,    \* TRUE once a step cleared or set a bit its operation was not entitled to
          since,    \* thread -> pages cleared (by anybody) since the thread's running operation began
          owed      \* pages with a COMPLETED mark that no step has cleared since that mark began: they must be set
vars == <<w, prog, pc, tmp, half, acc, marked, everMarked, harvested, clearedExplicit, stray, since, owed>>

Threads == DOMAIN prog

SortedSeq(S) == LET RECURSIVE F(_)
                    F(T) == IF T = {} THEN <<>> ELSE LET m == CHOOSE x \in T : \A y \in T : x <= y IN <<m>> \o F(T \ {m})
                IN F(S)

\* atomic steps of an operation, as the code performs them: <<kind, word, operand>>
Steps(op) ==
    CASE op.k = "mark"    -> [i \in 1 .. Cardinality(Target(op)) |->
                                LET p == SortedSeq(Target(op))[i] IN <<"fetch_or", p \div WB, {p % WB}>>]
      [] op.k = "unmark"  -> [i \in 1 .. Cardinality(Target(op)) |->
                                LET p == SortedSeq(Target(op))[i] IN <<"fetch_and", p \div WB, (0 .. WB - 1) \ {p % WB}>>]
      [] op.k = "harvest" -> [j \in 1 .. NW |-> <<"fetch_and", j - 1, {}>>]
      [] op.k = "reset"   -> [j \in 1 .. NW |-> <<"store", j - 1, {}>>]
      [] op.k = "clone"   -> [j \in 1 .. NW |-> <<"load", j - 1, {}>>]
      [] OTHER            -> <<>>

Cur(t) == prog[t][pc[t][1]]
Running(t) == pc[t][1] <= Len(prog[t])

\* bookkeeping when thread t finishes step number pc[t][2] of its current operation
\* per-mark accounting: X = the pages this step cleared
Account(t, op, lastStep, X) ==
    LET s1 == [u \in DOMAIN since |-> since[u] \cup X] IN
    /\ owed' = (owed \ X) \cup (IF lastStep /\ op.k = "mark" THEN Target(op) \ s1[t] ELSE {})
    /\ since' = IF lastStep THEN [s1 EXCEPT ![t] = {}] ELSE s1

Advance(t, op, nsteps, got) ==
    LET lastStep == pc[t][2] >= nsteps IN
    /\ pc' = [pc EXCEPT ![t] = IF lastStep THEN <<pc[t][1] + 1, 1>> ELSE <<pc[t][1], pc[t][2] + 1>>]
    /\ acc' = [acc EXCEPT ![t] = IF lastStep THEN {} ELSE got]
    /\ marked' = IF lastStep /\ op.k = "mark" THEN marked \cup Target(op) ELSE marked
    /\ harvested' = IF lastStep /\ op.k = "harvest" THEN harvested \cup got ELSE harvested

\* one atomic step `<<kind, j, a>>` of thread t applied to memory
Do(t, op, kind, j, a, nsteps) ==
    LET v == w[j]
        nv == Effect(kind, v, a)
        clearedP == PagesOf(j, v \ nv)
        setP == PagesOf(j, nv \ v)
        got == IF op.k \in {"harvest", "clone"} /\ kind # "store" THEN acc[t] \cup PagesOf(j, v) ELSE acc[t]
    IN  /\ w' = [w EXCEPT ![j] = nv]
        /\ stray' = (stray \/ ~(clearedP \subseteq MayClear(op)) \/ ~(setP \subseteq MaySet(op)))
        /\ clearedExplicit' = IF op.k \in {"unmark", "reset"} THEN clearedExplicit \cup clearedP ELSE clearedExplicit
        /\ Account(t, op, pc[t][2] >= nsteps, clearedP)
        /\ Advance(t, op, nsteps, got)

Step(t) ==
    /\ Running(t)
    /\ LET op == Cur(t)
           ss == Steps(op) IN
       IF Len(ss) = 0
       THEN /\ pc' = [pc EXCEPT ![t] = <<pc[t][1] + 1, 1>>]
            /\ marked' = IF op.k = "mark" THEN marked \cup Target(op) ELSE marked
            /\ Account(t, op, TRUE, {})
            /\ UNCHANGED <<w, tmp, half, acc, harvested, clearedExplicit, stray>>
       ELSE LET s == ss[pc[t][2]] IN
            IF Split /\ s[1] \in {"fetch_or", "fetch_and"}
            THEN IF ~half[t]
                 THEN \* first half: plain load
                      /\ tmp' = [tmp EXCEPT ![t] = w[s[2]]] /\ half' = [half EXCEPT ![t] = TRUE]
                      /\ UNCHANGED <<w, pc, acc, marked, harvested, clearedExplicit, stray, since, owed>>
                 ELSE \* second half: store of the value computed from the stale load
                      /\ half' = [half EXCEPT ![t] = FALSE] /\ tmp' = [tmp EXCEPT ![t] = {}]
                      /\ LET nv == Effect(s[1], tmp[t], s[3])
                             v == w[s[2]]
                             got == IF op.k = "harvest" THEN acc[t] \cup PagesOf(s[2], tmp[t]) ELSE acc[t] IN
                         /\ w' = [w EXCEPT ![s[2]] = nv]
                         /\ stray' = (stray \/ ~(PagesOf(s[2], v \ nv) \subseteq MayClear(op)) \/ ~(PagesOf(s[2], nv \ v) \subseteq MaySet(op))
                                            \/ (op.k = "harvest" /\ tmp[t] # v))     \* took more than it returns
                         /\ clearedExplicit' = IF op.k \in {"unmark", "reset"} THEN clearedExplicit \cup PagesOf(s[2], v \ nv) ELSE clearedExplicit
                         /\ Account(t, op, pc[t][2] >= Len(ss), PagesOf(s[2], v \ nv))
                         /\ Advance(t, op, Len(ss), got)
            ELSE /\ Do(t, op, s[1], s[2], s[3], Len(ss))
                 /\ UNCHANGED <<tmp, half>>
    /\ everMarked' = everMarked      \* (set at Init: every page some mark operation of the scenario targets)
    /\ prog' = prog

Init == \E sc \in Scenarios :
          /\ prog = sc
          /\ w = [j \in Words |-> {}]
          /\ pc = [t \in DOMAIN sc |-> <<1, 1>>]
          /\ tmp = [t \in DOMAIN sc |-> {}] /\ half = [t \in DOMAIN sc |-> FALSE]
          /\ acc = [t \in DOMAIN sc |-> {}]
          /\ marked = {} /\ harvested = {} /\ clearedExplicit = {} /\ stray = FALSE
          /\ since = [t \in DOMAIN sc |-> {}] /\ owed = {}
          /\ everMarked = UNION {UNION {Target(sc[t][i]) : i \in 1 .. Len(sc[t])} : t \in DOMAIN sc}

Next == \E t \in Threads : Step(t)
Spec == Init /\ [][Next]_vars

\* bounded scenarios: operations beyond the end of a program do not exist
ProgOK == \A t \in Threads : Len(prog[t]) <= 8

Bits == UNION {PagesOf(j, w[j]) : j \in Words}
AllDone == \A t \in Threads : ~Running(t)

\* ---- C08 ----------------------------------------------------------------------
\* a page marked at any time is contained in the result of some fetch-and-clear, or still set, or was explicitly reset
InFlight == UNION {IF Running(t) /\ Cur(t).k = "harvest" THEN acc[t] ELSE {} : t \in Threads}   \* taken by a harvest still running
NoLostMark == marked \subseteq (harvested \cup InFlight \cup Bits \cup clearedExplicit)
\* ... per mark, with the order: a mark that has completed, and whose page nobody has cleared since it BEGAN, left its page
\* set (a mark issued after a harvest returned is not excused by that earlier harvest)
EveryMarkCounts == owed \subseteq Bits
\* no fetch-and-clear reports a page nobody marked
NoPhantom == harvested \subseteq everMarked
\* no step clears or sets a bit its operation is not entitled to (two marks in one word never erase one another)
NoStray == ~stray
InRange == Bits \subseteq AllPages
=============================================================================
