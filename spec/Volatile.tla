------------------------------ MODULE Volatile ------------------------------
(***************************************************************************)
(* One volatile container (a VolatileSlice over a buffer, or an MmapRegion)*)
(* and the accessors derived from it: sub-slices, typed references,        *)
(* element arrays, atomic references, pointer guards - with the byte       *)
(* contents of the container and the dirty-page set of its bitmap.         *)
(*                                                                         *)
(* Properties decided with this module: C01 (containment, alignment),      *)
(* C04 (exactly the named bytes move), C05/C16 (dirty tracking sound and   *)
(* precise), C17 (guard spans the accessor; standard build), C18 (zero     *)
(* length = no-op), C07 (no panic on guest-controlled values).             *)
(*                                                                         *)
(* State (one record `st`):                                                *)
(*   N     length of the root container                                    *)
(*   B     host address of the root modulo 16 (alignment class)            *)
(*   P     page size of the dirty bitmap; its byte size is N               *)
(*   mem   the N bytes (sequence, mem[i+1] is the byte at offset i)        *)
(*   dirty set of dirty page numbers                                       *)
(*   cur   the accessor at the end of the current derivation chain:        *)
(*         [kind, off, len, esz, n] with off relative to the root, len in  *)
(*         bytes; kind is "region" (the MmapRegion itself), "slice",       *)
(*         "ref" (esz bytes) or "array" (n elements of esz bytes)          *)
(*   root  the accessor `root` returns to ("region" or "slice" of 0..N)    *)
(*   ph    "go" | "done" : with OneShot, a data operation ends the history *)
(*                                                                         *)
(* A derivation REPLACES cur by its child, so chains of any depth are      *)
(* walks in a small graph and containment in the root gives containment in *)
(* every ancestor by transitivity (each step is also checked against its   *)
(* parent by ContainedInParent).                                           *)
(***************************************************************************)
EXTENDS PageSet, FiniteSets, Sequences, TLC

CONSTANTS
    Roots,        \* set of <<kind, N, B, P>> initial containers
    OffVals,      \* offsets / addresses tried
    CntVals,      \* counts / lengths tried
    EszVals,      \* element sizes for typed refs and arrays
    NVals,        \* element counts
    AtomVals,     \* atomic widths {1,2,4,8}
    BufLens,      \* buffer lengths (bytes or elements)
    TgtVals,      \* <<to, tc>> targets for slice-to-slice copies
    OneShot       \* TRUE: a data operation ends the history (test generation)

VARIABLES st, last
vars == <<st, last>>

\* ---- helpers --------------------------------------------------------------
SliceRec(o, l)  == [kind |-> "slice", off |-> o, len |-> l, esz |-> 1, n |-> l]
RegionRec(l)    == [kind |-> "region", off |-> 0, len |-> l, esz |-> 1, n |-> l]
RefRec(o, e)    == [kind |-> "ref", off |-> o, len |-> e, esz |-> e, n |-> 1]
ArrRec(o, n, e) == [kind |-> "array", off |-> o, len |-> n * e, esz |-> e, n |-> n]

OkU      == [k |-> "ok"]
OkN(n)   == [k |-> "ok", n |-> n]
OkD(n, d) == [k |-> "ok", n |-> n, data |-> d]
Err(e)   == [k |-> "err", e |-> e]
Panic    == [k |-> "panic"]
Skip     == [k |-> "skip"]

Res(s, r) == [st |-> s, r |-> r]

NPg(s) == DivCeil(s.N, s.P)

\* bytes n of mem starting at offset at
\* (built with SubSeq / \o so that TLC holds them as plain tuples)
Sub(mem, at, n) == SubSeq(mem, at + 1, at + n)
\* mem with the first n bytes of buf stored at offset at
Put(mem, at, buf, n) == SubSeq(mem, 1, at) \o SubSeq(buf, 1, n) \o SubSeq(mem, at + n + 1, Len(mem))

Mark(s, at, n) == s.dirty \cup Pages(NPg(s), s.P, at, n)

\* store n bytes of buf at root offset at and mark them dirty
Wr(s, at, buf, n) == [s EXCEPT !.mem = Put(s.mem, at, buf, n), !.dirty = Mark(s, at, n)]

\* a count so large that host pointer + count wraps: only reachable in the band universe
\* (host pointers are < 2^48, so any count in the top band overflows and no other does)
PtrOvf(c) == c >= WORD - (WORD \div 1024)

\* the bounds check of get_slice / subslice / compute_end_offset against an accessor of length L
Chk(L, o, c) == LET e == CheckedAdd(o, c)
                IN  IF e = NONE THEN "Overflow" ELSE IF e > L THEN "OutOfBounds" ELSE "ok"
\* the bounds check of offset(c) / split_at(c)
ChkOff(L, c) == IF PtrOvf(c) THEN "Overflow" ELSE IF c > L THEN "OutOfBounds" ELSE "ok"

Aligned(s, o, al) == (s.B + o) % al = 0

IsMem(c)   == c.kind \in {"region", "slice"}     \* implements VolatileMemory
IsSlice(c) == c.kind = "slice"                   \* implements Bytes<usize>

\* ---- the step function ----------------------------------------------------
\* with OneShot, an operation that may modify memory or the bitmap ends the history (reads, queries and
\* refused requests leave the state unchanged and can be chained)
Done(s) == IF OneShot THEN [s EXCEPT !.ph = "done"] ELSE s

Derive(s, chk, new) == IF chk = "ok" THEN Res([s EXCEPT !.cur = new], OkU) ELSE Res(s, Err(chk))

Apply(s, op, a) ==
  LET c == s.cur
      O == s.cur.off
      L == s.cur.len
  IN
  CASE \* ---------------- derivations ----------------
       op \in {"subslice", "get_slice"} ->
         IF ~IsMem(c) \/ (op = "subslice" /\ ~IsSlice(c)) THEN Res(s, Skip)
         ELSE Derive(s, Chk(L, a.o, a.c), SliceRec(O + a.o, a.c))
    [] op = "offset" ->
         IF ~IsSlice(c) THEN Res(s, Skip)
         ELSE Derive(s, ChkOff(L, a.c), SliceRec(O + a.c, L - a.c))
    [] op = "split_at" ->
         IF ~IsSlice(c) THEN Res(s, Skip)
         ELSE IF ChkOff(L, a.m) # "ok" THEN Res(s, Err(ChkOff(L, a.m)))
         ELSE Res([s EXCEPT !.cur = IF a.pick = 0 THEN SliceRec(O, a.m) ELSE SliceRec(O + a.m, L - a.m)],
                  [k |-> "ok", a |-> <<O, a.m>>, b |-> <<O + a.m, L - a.m>>])
    [] op = "get_ref" ->
         IF ~IsMem(c) THEN Res(s, Skip)
         ELSE Derive(s, Chk(L, a.o, a.esz), RefRec(O + a.o, a.esz))
    [] op = "get_array_ref" ->
         IF ~IsMem(c) THEN Res(s, Skip)
         ELSE LET nb == CheckedMulI(a.n, a.esz) IN
              IF nb = NONE THEN Res(s, Err("TooBig"))
              ELSE Derive(s, Chk(L, a.o, nb), ArrRec(O + a.o, a.n, a.esz))
    [] op = "to_slice" ->
         IF c.kind \notin {"ref", "array"} THEN Res(s, Skip)
         ELSE Res([s EXCEPT !.cur = SliceRec(O, L)], OkU)
    [] op = "ref_at" ->
         IF c.kind # "array" THEN Res(s, Skip)
         ELSE IF a.i >= c.n THEN Res(s, Panic)                   \* documented panic
         ELSE Res([s EXCEPT !.cur = RefRec(O + a.i * c.esz, c.esz)], OkU)
    [] op = "array_from_slice" ->
         IF ~IsSlice(c) THEN Res(s, Skip) ELSE Res([s EXCEPT !.cur = ArrRec(O, L, 1)], OkU)
    [] op = "as_volatile_slice" ->
         IF ~IsMem(c) THEN Res(s, Skip) ELSE Res([s EXCEPT !.cur = SliceRec(O, L)], OkU)
    [] op = "root" -> Res([s EXCEPT !.cur = s.root], OkU)
       \* ---------------- queries ----------------
    [] op = "compute_end_offset" ->
         IF ~IsMem(c) THEN Res(s, Skip)
         ELSE LET ch == Chk(L, a.base, a.off) IN
              IF ch = "ok" THEN Res(s, [k |-> "ok", v |-> a.base + a.off]) ELSE Res(s, Err(ch))
    [] op = "len" ->
         Res(s, [k |-> "ok", len |-> IF c.kind = "array" THEN c.n ELSE L,
                 empty |-> IF c.kind = "array" THEN c.n = 0 ELSE IF c.kind = "ref" THEN FALSE ELSE L = 0])
    [] op = "ptr_guard" ->
         IF c.kind = "region" THEN Res(s, Skip)
         ELSE Res(s, [k |-> "ok", off |-> O, len |-> L, moff |-> O, mlen |-> L])
    [] op = "get_atomic_ref" ->
         IF ~IsMem(c) THEN Res(s, Skip)
         ELSE LET ch == Chk(L, a.o, a.esz) IN
              IF ch # "ok" THEN Res(s, Err(ch))
              ELSE IF ~Aligned(s, O + a.o, a.esz) THEN Res(s, Err("Misaligned"))
              ELSE Res(s, [k |-> "ok", off |-> O + a.o, data |-> Sub(s.mem, O + a.o, a.esz)])
    [] op \in {"aligned_as_ref", "aligned_as_mut"} ->
         IF ~IsMem(c) THEN Res(s, Skip)
         ELSE LET ch == Chk(L, a.o, a.esz) IN
              IF ch # "ok" THEN Res(s, Err(ch))
              ELSE IF ~Aligned(s, O + a.o, a.al) THEN Res(s, Err("Misaligned"))
              ELSE Res(s, [k |-> "ok", off |-> O + a.o, data |-> Sub(s.mem, O + a.o, a.esz)])
       \* ByteValued::from_slice / from_mut_slice on the host bytes [o, o+n) under the current slice: a reference is
       \* produced exactly when the length is the type's size and the address is aligned for it, and it designates
       \* those very bytes; anything else is None (never a reference)
    [] op \in {"bv_from_slice", "bv_from_mut_slice"} ->
         IF ~IsSlice(c) \/ Chk(L, a.o, a.n) # "ok" THEN Res(s, Skip)
         ELSE IF a.n # a.esz \/ ~Aligned(s, O + a.o, a.al) THEN Res(s, [k |-> "none"])
         ELSE Res(s, [k |-> "ok", off |-> O + a.o, data |-> Sub(s.mem, O + a.o, a.esz)])
       \* ---------------- Bytes<usize> on a slice ----------------
    [] op = "write" ->
         IF ~IsSlice(c) THEN Res(s, Skip)
         ELSE IF Len(a.buf) = 0 THEN Res(s, OkN(0))
         ELSE IF a.addr >= L THEN Res(s, Err("OutOfBounds"))
         ELSE LET n == Min(Len(a.buf), L - a.addr) IN Res(Done(Wr(s, O + a.addr, a.buf, n)), OkN(n))
    [] op = "read" ->
         IF ~IsSlice(c) THEN Res(s, Skip)
         ELSE IF a.bl = 0 THEN Res(s, OkD(0, <<>>))
         ELSE IF a.addr >= L THEN Res(s, Err("OutOfBounds"))
         ELSE LET n == Min(a.bl, L - a.addr) IN Res(s, OkD(n, Sub(s.mem, O + a.addr, n)))
    [] op \in {"write_slice", "write_obj"} ->
         IF ~IsSlice(c) THEN Res(s, Skip)
         ELSE IF Len(a.buf) = 0 THEN Res(s, OkU)
         ELSE IF a.addr >= L THEN Res(s, Err("OutOfBounds"))
         ELSE LET n == Min(Len(a.buf), L - a.addr) IN
              Res(Done(Wr(s, O + a.addr, a.buf, n)),
                  IF n = Len(a.buf) THEN OkU ELSE [k |-> "err", e |-> "PartialBuffer", exp |-> Len(a.buf), done |-> n])
    [] op \in {"read_slice", "read_obj"} ->
         IF ~IsSlice(c) THEN Res(s, Skip)
         ELSE LET bl == IF op = "read_obj" THEN a.esz ELSE a.bl IN
              IF bl = 0 THEN Res(s, OkD(0, <<>>))
              ELSE IF a.addr >= L THEN Res(s, Err("OutOfBounds"))
              ELSE LET n == Min(bl, L - a.addr) IN
                   Res(s, IF n = bl THEN OkD(n, Sub(s.mem, O + a.addr, n))
                                ELSE [k |-> "err", e |-> "PartialBuffer", exp |-> bl, done |-> n])
    [] op = "store" ->
         IF ~IsSlice(c) THEN Res(s, Skip)
         ELSE LET ch == Chk(L, a.addr, Len(a.buf)) IN
              IF ch # "ok" THEN Res(s, Err(ch))
              ELSE IF ~Aligned(s, O + a.addr, Len(a.buf)) THEN Res(s, Err("Misaligned"))
              ELSE Res(Done(Wr(s, O + a.addr, a.buf, Len(a.buf))), OkU)
    [] op = "load" ->
         IF ~IsSlice(c) THEN Res(s, Skip)
         ELSE LET ch == Chk(L, a.addr, a.esz) IN
              IF ch # "ok" THEN Res(s, Err(ch))
              ELSE IF ~Aligned(s, O + a.addr, a.esz) THEN Res(s, Err("Misaligned"))
              ELSE Res(s, OkD(a.esz, Sub(s.mem, O + a.addr, a.esz)))
    [] op = "copy_to" ->       \* a.esz element size, a.bl buffer length in elements
         IF ~IsSlice(c) THEN Res(s, Skip)
         ELSE IF a.esz = 0 THEN Res(s, [k |-> "ok", zst |-> TRUE])   \* any count: C18
         ELSE LET n == Min(a.bl, L \div a.esz) IN Res(s, OkD(n, Sub(s.mem, O, n * a.esz)))
    [] op = "copy_from" ->     \* a.esz, a.buf = bytes of the elements
         IF ~IsSlice(c) THEN Res(s, Skip)
         ELSE IF a.esz = 0 THEN Res(s, OkU)
         ELSE LET n == Min(Len(a.buf) \div a.esz, L \div a.esz) IN
              Res(Done(Wr(s, O, a.buf, n * a.esz)), OkU)
    [] op \in {"copy_to_volatile_slice", "arr_copy_to_volatile_slice"} ->    \* target = root.subslice(to, tc)
         IF (op = "copy_to_volatile_slice" /\ ~IsSlice(c)) \/ (op = "arr_copy_to_volatile_slice" /\ c.kind # "array")
         THEN Res(s, Skip)
         ELSE LET n == Min(L, a.tc) IN Res(Done(Wr(s, a.to, Sub(s.mem, O, n), n)), OkU)
    [] op = "read_volatile_from" ->     \* a.src bytes available in the stream
         IF ~IsSlice(c) THEN Res(s, Skip)
         ELSE IF ChkOff(L, a.addr) # "ok" THEN Res(s, Err(ChkOff(L, a.addr)))
         ELSE LET n == Min(Min(L - a.addr, a.count), Len(a.src)) IN
              Res(Done(Wr(s, O + a.addr, a.src, n)), OkN(n))
    [] op = "read_exact_volatile_from" ->
         IF ~IsSlice(c) THEN Res(s, Skip)
         ELSE LET ch == Chk(L, a.addr, a.count) IN
              IF ch # "ok" THEN Res(s, Err(ch))
              ELSE IF a.count > Len(a.src) THEN Res(s, Err("IOError"))
              ELSE Res(Done(Wr(s, O + a.addr, a.src, a.count)), OkU)
       \* the same two from a Cursor over a.src standing at a.pos (which may lie beyond the end: nothing is left then)
    [] op = "read_cursor" ->
         LET av == IF a.pos >= Len(a.src) THEN <<>> ELSE SubSeq(a.src, a.pos + 1, Len(a.src)) IN
         IF ~IsSlice(c) THEN Res(s, Skip)
         ELSE IF ChkOff(L, a.addr) # "ok" THEN Res(s, Err(ChkOff(L, a.addr)))
         ELSE LET n == Min(Min(L - a.addr, a.count), Len(av)) IN
              Res(Done(Wr(s, O + a.addr, av, n)), OkN(n))
    [] op = "read_exact_cursor" ->
         LET av == IF a.pos >= Len(a.src) THEN <<>> ELSE SubSeq(a.src, a.pos + 1, Len(a.src)) IN
         IF ~IsSlice(c) THEN Res(s, Skip)
         ELSE LET ch == Chk(L, a.addr, a.count) IN
              IF ch # "ok" THEN Res(s, Err(ch))
              ELSE IF a.count > Len(av) THEN Res(s, Err("IOError"))
              ELSE Res(Done(Wr(s, O + a.addr, av, a.count)), OkU)
    [] op = "write_volatile_to" ->
         IF ~IsSlice(c) THEN Res(s, Skip)
         ELSE IF ChkOff(L, a.addr) # "ok" THEN Res(s, Err(ChkOff(L, a.addr)))
         ELSE LET n == Min(L - a.addr, a.count) IN Res(s, OkD(n, Sub(s.mem, O + a.addr, n)))
    [] op = "write_all_volatile_to" ->
         IF ~IsSlice(c) THEN Res(s, Skip)
         ELSE LET ch == Chk(L, a.addr, a.count) IN
              IF ch # "ok" THEN Res(s, Err(ch))
              ELSE Res(s, OkD(a.count, Sub(s.mem, O + a.addr, a.count)))
       \* the same two into a cursor over a.room bytes: a sink that fills up (write returns 0) - the exact form must
       \* then fail with write-zero, never spin
    [] op = "write_to_cursor" ->
         IF ~IsSlice(c) THEN Res(s, Skip)
         ELSE IF ChkOff(L, a.addr) # "ok" THEN Res(s, Err(ChkOff(L, a.addr)))
         ELSE LET n == Min(Min(L - a.addr, a.count), a.room) IN Res(s, OkD(n, Sub(s.mem, O + a.addr, n)))
    [] op = "write_all_to_cursor" ->
         IF ~IsSlice(c) THEN Res(s, Skip)
         ELSE LET ch == Chk(L, a.addr, a.count) IN
              IF ch # "ok" THEN Res(s, Err(ch))
              ELSE IF a.count > a.room THEN Res(s, Err("IOError"))
              ELSE Res(s, OkD(a.count, Sub(s.mem, O + a.addr, a.count)))
    [] op = "write_to_bad_fd" ->        \* descriptor write that fails: guest memory was only read - nothing is marked
         IF ~IsSlice(c) THEN Res(s, Skip)
         ELSE IF ChkOff(L, a.addr) # "ok" THEN Res(s, Err(ChkOff(L, a.addr)))
         ELSE IF Min(L - a.addr, a.count) = 0 THEN Res(s, Skip)      \* an empty write to a bad descriptor: the kernel's call
         ELSE Res(s, Err("IOError"))
    [] op = "read_from_bad_fd" ->       \* descriptor read that fails: marks its whole target
         IF ~IsSlice(c) THEN Res(s, Skip)
         ELSE IF ChkOff(L, a.addr) # "ok" THEN Res(s, Err(ChkOff(L, a.addr)))
         ELSE LET n == Min(L - a.addr, a.count) IN
              Res(Done([s EXCEPT !.dirty = Mark(s, O + a.addr, n)]), Err("IOError"))
       \* ---------------- typed reference ----------------
    [] op = "ref_store" ->
         IF c.kind # "ref" THEN Res(s, Skip) ELSE Res(Done(Wr(s, O, a.buf, L)), OkU)
    [] op = "ref_load" ->
         IF c.kind # "ref" THEN Res(s, Skip) ELSE Res(s, OkD(L, Sub(s.mem, O, L)))
       \* ---------------- element array ----------------
    [] op = "arr_load" ->
         IF c.kind # "array" THEN Res(s, Skip)
         ELSE IF a.i >= c.n THEN Res(s, Panic)
         ELSE Res(s, OkD(c.esz, Sub(s.mem, O + a.i * c.esz, c.esz)))
    [] op = "arr_store" ->
         IF c.kind # "array" THEN Res(s, Skip)
         ELSE IF a.i >= c.n THEN Res(s, Panic)
         ELSE Res(Done(Wr(s, O + a.i * c.esz, a.buf, c.esz)), OkU)
    [] op = "arr_copy_to" ->
         IF c.kind # "array" THEN Res(s, Skip)
         ELSE IF c.esz = 0 THEN Res(s, [k |-> "ok", zst |-> TRUE])
         ELSE LET n == Min(a.bl, c.n) IN Res(s, OkD(n, Sub(s.mem, O, n * c.esz)))
    [] op = "arr_copy_from" ->
         IF c.kind # "array" THEN Res(s, Skip)
         ELSE IF c.esz = 0 THEN Res(s, OkU)
         ELSE LET n == Min(Len(a.buf) \div c.esz, c.n) IN Res(Done(Wr(s, O, a.buf, n * c.esz)), OkU)
       \* ---------------- bitmap management ----------------
    [] op = "bitmap_reset" -> Res([s EXCEPT !.dirty = {}], OkU)

\* ---- actions --------------------------------------------------------------
Step(op, a) ==
    /\ st.ph = "go"
    /\ LET x == Apply(st, op, a) IN
         /\ x.r.k # "skip"
         /\ st' = x.st
         /\ last' = [op |-> op, a |-> a, r |-> x.r]

\* bytes written by generated tests (they differ from the canonical fill)
TagSeq == <<101, 102, 103, 104, 105, 106, 107, 108, 109, 110, 111, 112, 113, 114, 115, 116, 117, 118, 119, 120,
            121, 122, 123, 124, 125, 126, 127, 128, 129, 130, 131, 132, 133, 134, 135, 136, 137, 138, 139, 140,
            141, 142, 143, 144, 145, 146, 147, 148, 149, 150, 151, 152, 153, 154, 155, 156, 157, 158, 159, 160,
            161, 162, 163, 164, 165, 166, 167, 168, 169, 170, 171, 172, 173, 174, 175, 176, 177, 178, 179, 180,
            181, 182, 183, 184, 185, 186, 187, 188, 189, 190, 191, 192, 193, 194, 195, 196, 197, 198, 199, 200,
            201, 202, 203, 204, 205, 206, 207, 208, 209, 210, 211, 212, 213, 214, 215, 216, 217, 218, 219, 220,
            221, 222, 223, 224, 225, 226, 227, 228, 229, 230, 231, 232, 233, 234, 235, 236, 237, 238, 239, 240,
            241, 242, 243, 244, 245, 246, 247, 248, 249, 250, 101, 102, 103, 104, 105, 106, 107, 108, 109, 110,
            111, 112, 113, 114, 115, 116, 117, 118, 119, 120, 121, 122, 123, 124, 125, 126, 127, 128, 129, 130,
            131, 132, 133, 134, 135, 136, 137, 138, 139, 140, 141, 142, 143, 144, 145, 146, 147, 148, 149, 150,
            151, 152, 153, 154, 155, 156, 157, 158, 159, 160, 161, 162, 163, 164, 165, 166, 167, 168, 169, 170,
            171, 172, 173, 174, 175, 176, 177, 178, 179, 180, 181, 182, 183, 184, 185, 186, 187, 188, 189, 190,
            191, 192, 193, 194, 195, 196, 197, 198, 199, 200, 201, 202, 203, 204, 205, 206, 207, 208, 209, 210,
            211, 212, 213, 214, 215, 216, 217, 218, 219, 220, 221, 222, 223, 224, 225, 226, 227, 228, 229, 230,
            231, 232, 233, 234, 235, 236, 237, 238, 239, 240, 241, 242, 243, 244, 245, 246, 247, 248, 249, 250,
            101, 102, 103, 104, 105, 106, 107, 108, 109, 110, 111, 112, 113, 114, 115, 116, 117, 118, 119, 120>>
Tag(n) == SubSeq(TagSeq, 1, n)

Subslice   == \E o \in OffVals, c \in CntVals : Step("subslice", [o |-> o, c |-> c])
GetSlice   == \E o \in OffVals, c \in CntVals : Step("get_slice", [o |-> o, c |-> c])
Offset     == \E c \in OffVals : Step("offset", [c |-> c])
SplitAt    == \E m \in OffVals, p \in {0, 1} : Step("split_at", [m |-> m, pick |-> p])
GetRef     == \E o \in OffVals, e \in EszVals : Step("get_ref", [o |-> o, esz |-> e])
GetArrayRef == \E o \in OffVals, n \in NVals, e \in EszVals : Step("get_array_ref", [o |-> o, n |-> n, esz |-> e])
ToSlice    == Step("to_slice", [x |-> 0])
RefAt      == \E i \in NVals : Step("ref_at", [i |-> i])
ArrayFromSlice == Step("array_from_slice", [x |-> 0])
AsVolatileSlice == Step("as_volatile_slice", [x |-> 0])
Root       == Step("root", [x |-> 0])
ComputeEndOffset == \E b \in OffVals, o \in CntVals : Step("compute_end_offset", [base |-> b, off |-> o])
LenQ       == Step("len", [x |-> 0])
PtrGuard   == Step("ptr_guard", [x |-> 0])
GetAtomicRef == \E o \in OffVals, e \in AtomVals : Step("get_atomic_ref", [o |-> o, esz |-> e])
AlignedAsRef == \E o \in OffVals, e \in EszVals \ {0} : \E al \in {x \in {1, 2, 4, 8, 16} : e % x = 0} :
                   Step("aligned_as_ref", [o |-> o, esz |-> e, al |-> al])
BvFromSlice == \E o \in OffVals, e \in EszVals \ {0}, m \in {"bv_from_slice", "bv_from_mut_slice"} :
                  \E al \in {x \in {1, 2, 4, 8, 16} : e % x = 0}, n \in {e, e + 1} \cup (IF e > 1 THEN {e - 1} ELSE {}) :
                   Step(m, [o |-> o, n |-> n, esz |-> e, al |-> al])
Write      == \E x \in OffVals, b \in BufLens : Step("write", [addr |-> x, buf |-> Tag(b)])
Read       == \E x \in OffVals, b \in BufLens : Step("read", [addr |-> x, bl |-> b])
WriteSlice == \E x \in OffVals, b \in BufLens : Step("write_slice", [addr |-> x, buf |-> Tag(b)])
ReadSlice  == \E x \in OffVals, b \in BufLens : Step("read_slice", [addr |-> x, bl |-> b])
WriteObj   == \E x \in OffVals, e \in EszVals : Step("write_obj", [addr |-> x, buf |-> Tag(e)])
ReadObj    == \E x \in OffVals, e \in EszVals : Step("read_obj", [addr |-> x, esz |-> e])
Store      == \E x \in OffVals, e \in AtomVals : Step("store", [addr |-> x, buf |-> Tag(e)])
Load       == \E x \in OffVals, e \in AtomVals : Step("load", [addr |-> x, esz |-> e])
CopyTo     == \E e \in EszVals, b \in BufLens : Step("copy_to", [esz |-> e, bl |-> b])
CopyFrom   == \E e \in EszVals, b \in BufLens : Step("copy_from", [esz |-> e, buf |-> Tag(b * e)])
CopyToVS   == \E t \in TgtVals : t[1] + t[2] <= st.N /\ Step("copy_to_volatile_slice", [to |-> t[1], tc |-> t[2]])
ReadVolatileFrom == \E x \in OffVals, k \in BufLens, n \in CntVals :
                       Step("read_volatile_from", [addr |-> x, src |-> Tag(k), count |-> n])
ReadExactVolatileFrom == \E x \in OffVals, k \in BufLens, n \in CntVals :
                       Step("read_exact_volatile_from", [addr |-> x, src |-> Tag(k), count |-> n])
ReadCursor == \E x \in OffVals, k \in BufLens, n \in CntVals, p \in {0, 1, 3} :
                       \/ Step("read_cursor", [addr |-> x, src |-> Tag(k), pos |-> p, count |-> n])
                       \/ Step("read_exact_cursor", [addr |-> x, src |-> Tag(k), pos |-> p, count |-> n])
WriteVolatileTo == \E x \in OffVals, n \in CntVals : Step("write_volatile_to", [addr |-> x, count |-> n])
WriteAllVolatileTo == \E x \in OffVals, n \in CntVals : Step("write_all_volatile_to", [addr |-> x, count |-> n])
WriteToCursor == \E x \in OffVals, n \in CntVals, k \in {0, 2} : Step("write_to_cursor", [addr |-> x, count |-> n, room |-> k])
WriteAllToCursor == \E x \in OffVals, n \in CntVals, k \in {0, 2} : Step("write_all_to_cursor", [addr |-> x, count |-> n, room |-> k])
ReadFromBadFd == \E x \in OffVals, n \in CntVals : Step("read_from_bad_fd", [addr |-> x, count |-> n])
WriteToBadFd == \E x \in OffVals, n \in CntVals : Step("write_to_bad_fd", [addr |-> x, count |-> n])
RefStore   == st.cur.kind = "ref" /\ Step("ref_store", [buf |-> Tag(st.cur.len)])
RefLoad    == Step("ref_load", [x |-> 0])
ArrLoad    == \E i \in NVals : Step("arr_load", [i |-> i])
ArrStore   == \E i \in NVals : st.cur.kind = "array" /\ Step("arr_store", [i |-> i, buf |-> Tag(st.cur.esz)])
ArrCopyTo  == \E b \in BufLens : Step("arr_copy_to", [bl |-> b])
ArrCopyFrom == \E b \in BufLens : st.cur.kind = "array" /\ Step("arr_copy_from", [buf |-> Tag(b * st.cur.esz)])
ArrCopyToVS == \E t \in TgtVals : t[1] + t[2] <= st.N /\ Step("arr_copy_to_volatile_slice", [to |-> t[1], tc |-> t[2]])
BitmapReset == ~OneShot /\ Step("bitmap_reset", [x |-> 0])

\* canonical initial contents
FillSeq == <<1, 2, 3, 4, 5, 6, 7, 8, 9, 10, 11, 12, 13, 14, 15, 16, 17, 18, 19, 20, 21, 22, 23, 24, 25, 26, 27, 28,
             29, 30, 31, 32, 33, 34, 35, 36, 37, 38, 39, 40>>
Fill(n) == IF n <= Len(FillSeq) THEN SubSeq(FillSeq, 1, n) ELSE [i \in 1 .. n |-> i % 256]

InitState(r) ==
    LET rt == IF r[1] = "region" THEN RegionRec(r[2]) ELSE SliceRec(0, r[2]) IN
    [N |-> r[2], B |-> r[3], P |-> r[4], mem |-> Fill(r[2]), dirty |-> {}, cur |-> rt, root |-> rt, ph |-> "go"]

Init == \E r \in Roots :
          /\ st = InitState(r)
          /\ last = [op |-> "init", a |-> [root |-> r[1], n |-> r[2], b |-> r[3], p |-> r[4]], r |-> OkU]

Derivations == \/ Subslice \/ GetSlice \/ Offset \/ SplitAt \/ GetRef \/ GetArrayRef \/ ToSlice \/ RefAt
               \/ ArrayFromSlice \/ AsVolatileSlice \/ Root
Queries     == \/ ComputeEndOffset \/ LenQ \/ PtrGuard \/ GetAtomicRef \/ AlignedAsRef \/ BvFromSlice
DataOps     == \/ Write \/ Read \/ WriteSlice \/ ReadSlice \/ WriteObj \/ ReadObj \/ Store \/ Load
               \/ CopyTo \/ CopyFrom \/ CopyToVS \/ ReadVolatileFrom \/ ReadExactVolatileFrom
               \/ WriteVolatileTo \/ WriteAllVolatileTo \/ WriteToCursor \/ WriteAllToCursor \/ ReadFromBadFd \/ WriteToBadFd \/ ReadCursor
               \/ RefStore \/ RefLoad \/ ArrLoad \/ ArrStore \/ ArrCopyTo \/ ArrCopyFrom \/ ArrCopyToVS
               \/ BitmapReset

Next == Derivations \/ Queries \/ DataOps

Spec == Init /\ [][Next]_vars

\* ---- properties -------------------------------------------------------------
\* C01: every accessor designates only bytes inside the root ...
Contained == st.cur.off + st.cur.len <= st.N
\* ... and inside the accessor it was derived from (one derivation step)
ContainedInParent ==
    [][ (last'.op \notin {"root", "init"} /\ last'.r.k = "ok") =>
          /\ st'.cur.off >= st.cur.off
          /\ st'.cur.off + st'.cur.len <= st.cur.off + st.cur.len ]_vars
\* a request that does not fit is answered with an error and never with an accessor
ErrNoAccessor == [][ last'.r.k # "ok" => st'.cur = st.cur ]_vars
\* typed / atomic references are only produced for aligned addresses
AlignedRefs == (last.op \in {"get_atomic_ref", "aligned_as_ref", "aligned_as_mut", "bv_from_slice", "bv_from_mut_slice"} /\ last.r.k = "ok") =>
                  (st.B + last.r.off) % (IF last.op = "get_atomic_ref" THEN last.a.esz ELSE last.a.al) = 0
\* C04: bytes change only inside the accessor used, or inside the named target of a slice-to-slice copy
Frame ==
    [][ \A i \in 1 .. st.N : st'.mem[i] # st.mem[i] =>
          \/ (i - 1 >= st.cur.off /\ i - 1 < st.cur.off + st.cur.len)
          \/ (last'.op \in {"copy_to_volatile_slice", "arr_copy_to_volatile_slice"}
                /\ i - 1 >= last'.a.to /\ i - 1 < last'.a.to + last'.a.tc) ]_vars
\* C05: every changed byte lies in a dirty page afterwards
DirtySound == [][ \A i \in 1 .. st.N : st'.mem[i] # st.mem[i] => ((i - 1) \div st.P) \in st'.dirty ]_vars
\* C16: marks never leave the page range of the accessor used (or of the copy target); reads mark nothing
DirtyConfined ==
    [][ \A p \in st'.dirty \ st.dirty :
          \/ \E i \in st.cur.off .. st.cur.off + st.cur.len - 1 : i \div st.P = p
          \/ (last'.op \in {"copy_to_volatile_slice", "arr_copy_to_volatile_slice"}
                /\ \E i \in last'.a.to .. last'.a.to + last'.a.tc - 1 : i \div st.P = p) ]_vars
ReadsMarkNothing ==
    [][ last'.op \in {"read", "read_slice", "read_obj", "load", "copy_to", "write_volatile_to",
                      "write_all_volatile_to", "write_to_cursor", "write_all_to_cursor", "write_to_bad_fd", "ref_load", "arr_load", "arr_copy_to", "ptr_guard", "len",
                      "compute_end_offset", "get_atomic_ref", "aligned_as_ref", "bv_from_slice", "bv_from_mut_slice", "subslice", "get_slice",
                      "offset", "split_at", "get_ref", "get_array_ref", "to_slice", "ref_at",
                      "array_from_slice", "as_volatile_slice", "root"}
          => st'.dirty = st.dirty /\ st'.mem = st.mem ]_vars
DirtyInRange == st.dirty \subseteq 0 .. NPg(st) - 1
\* C18: an access that names no bytes succeeds and changes nothing
ZeroLenNoop ==
    [][ ( \/ (last'.op \in {"write", "write_slice", "write_obj"} /\ Len(last'.a.buf) = 0)
          \/ (last'.op \in {"read", "read_slice"} /\ last'.a.bl = 0)
          \/ (last'.op = "read_obj" /\ last'.a.esz = 0) )
        => last'.r.k = "ok" /\ st'.mem = st.mem /\ st'.dirty = st.dirty ]_vars
\* C07: the only panics are the documented index-out-of-range ones
OnlyDocumentedPanics == last.r.k = "panic" => last.op \in {"ref_at", "arr_load", "arr_store"}

View == st
=============================================================================
