SPECIFICATION TraceSpec
CONSTANTS
  MaxOff = 0
  MaxLen = 1
  PS = {1}
  Check = {"nopanic"}
POSTCONDITION Accepted
CHECK_DEADLOCK FALSE
