---------------------------- MODULE Trace_GuestMem ----------------------------
(***************************************************************************)
(* Trace validation for GuestMem: events recorded from GuestMemoryMmap     *)
(* (anonymous / file-backed regions) and from the default-method backend   *)
(* are judged by GuestMem!Apply from the implementation's logged pre-state.*)
(***************************************************************************)
EXTENDS GuestMem, Json, IOUtils

CONSTANT Check   \* subset of {"query","data","dirty_sound","dirty_precise","zero","nopanic","variant"}

Rec == ndJsonDeserialize(IOEnv.TRACE)

VARIABLE l
tvars == <<st, last, l>>

ToSet(seq) == {seq[i] : i \in DOMAIN seq}

QueryOps == {"find_region", "to_region_addr", "address_in_range", "check_address", "checked_offset", "check_range",
             "last_addr", "get_host_address", "get_slice", "num_regions", "iter",
             "r_last_addr", "r_address_in_range", "r_check_address", "r_checked_offset", "r_to_region_addr",
             "r_get_host_address", "r_get_slice"}

LoggedRegs(e) == [i \in 1 .. Len(e.s.regs) |->
                    [s |-> e.s.regs[i].s, n |-> e.s.regs[i].n, mem |-> e.s.regs[i].mem, dirty |-> ToSet(e.s.regs[i].dirty)]]
Logged(s, e) == [s EXCEPT !.regs = LoggedRegs(e)]

IsZst(e) == \/ ("esz" \in DOMAIN e.a /\ e.a.esz = 0)
            \/ (e.op \in {"write_obj", "r_write_obj"} /\ Len(e.a.buf) = 0)
ZeroLen(e) == \/ IsZst(e)
              \/ (e.op \in {"write", "write_slice", "r_write", "r_write_slice"} /\ Len(e.a.buf) = 0)
              \/ (e.op \in {"read", "read_slice", "r_read", "r_read_slice"} /\ e.a.bl = 0)
              \/ (e.op \in {"read_volatile_from", "read_exact_volatile_from", "write_volatile_to",
                            "write_all_volatile_to", "r_read_volatile_from", "r_write_volatile_to"} /\ e.a.count = 0)

ResEq(lr, xr) == \/ xr.k = "any"
                 \/ /\ lr.k = xr.k
                    /\ \A f \in DOMAIN xr \ {"e", "k"} : f \in DOMAIN lr /\ lr[f] = xr[f]

Judge(ok, tag, exp) == IF ok THEN TRUE ELSE PrintT(<<"MISMATCH", l, tag, ToJson(exp)>>)
Drift(ok, tag, exp) == IF ok THEN TRUE ELSE PrintT(<<"DRIFT", l, tag, ToJson(exp)>>)

MemOf(regs) == [i \in 1 .. Len(regs) |-> regs[i].mem]
DirtyOf(regs) == [i \in 1 .. Len(regs) |-> regs[i].dirty]
SameShape(a, b) == Len(a) = Len(b) /\ \A i \in 1 .. Len(a) : a[i].s = b[i].s /\ a[i].n = b[i].n

TraceInit == /\ st = [be |-> "mmap", P |-> 1, regs |-> <<>>, ph |-> "go"]
             /\ last = [op |-> "none", a |-> [x |-> 0], r |-> OkU]
             /\ l = 1

CheckEvent(e, x) ==
    LET plain == ~IsZst(e)
        lr == LoggedRegs(e)
    IN
    /\ Judge(("query" \in Check /\ e.op \in QueryOps) => ResEq(e.r, x.r) /\ MemOf(lr) = MemOf(st.regs),
             "query", [res |-> x.r])
    /\ Judge(("data" \in Check /\ ~ZeroLen(e) /\ e.op \notin QueryOps) =>
                /\ ResEq(e.r, x.r)
                /\ SameShape(lr, x.st.regs)
                /\ MemOf(lr) = MemOf(x.st.regs)
                /\ \A i \in 1 .. Len(e.s.regs) : "fmem" \in DOMAIN e.s.regs[i] => e.s.regs[i].fmem = e.s.regs[i].mem,
             "data", [res |-> x.r, mem |-> MemOf(x.st.regs)])
    /\ Judge(("stream" \in Check /\ e.op \in ScriptedOps) =>
                /\ ResEq(e.r, x.r)
                /\ SameShape(lr, x.st.regs)
                /\ MemOf(lr) = MemOf(x.st.regs)
                /\ ("io" \in DOMAIN e.r => e.r.io # "Interrupted"),
             "stream", [res |-> x.r, mem |-> MemOf(x.st.regs)])
    /\ Judge(("dirty_sound" \in Check /\ plain /\ Tracked(st)) =>
                \A i \in 1 .. Len(lr) :
                   /\ x.st.regs[i].dirty \subseteq lr[i].dirty
                   /\ \A j \in 1 .. lr[i].n : lr[i].mem[j] # st.regs[i].mem[j] => ((j - 1) \div st.P) \in lr[i].dirty,
             "dirty_sound", [dirty |-> DirtyOf(x.st.regs)])
    /\ Judge(("dirty_precise" \in Check /\ plain /\ Tracked(st)) =>
                \A i \in 1 .. Len(lr) : lr[i].dirty \subseteq x.st.regs[i].dirty,
             "dirty_precise", [dirty |-> DirtyOf(x.st.regs)])
    /\ Judge(("zero" \in Check /\ ZeroLen(e) /\ x.r.k = "ok") =>
                /\ e.r.k = "ok"
                /\ MemOf(lr) = MemOf(st.regs) /\ DirtyOf(lr) = DirtyOf(st.regs),
             "zero", [res |-> x.r])
    /\ Judge("nopanic" \in Check => e.r.k # "panic", "nopanic", [res |-> x.r])
    /\ Drift(("variant" \in Check /\ x.r.k = "err" /\ e.r.k = "err") => e.r.e = x.r.e, "variant", [res |-> x.r])

TraceNext ==
    /\ l <= Len(Rec)
    /\ LET e == Rec[l] IN
         IF e.op = "init"
         THEN LET s0 == [be |-> IF e.a.be = "custom" THEN "custom" ELSE "mmap", P |-> e.a.p, regs |-> MkRegs(e.a.lay), ph |-> "go"] IN
              /\ Judge(Check # {} => SameShape(LoggedRegs(e), s0.regs), "init", [regs |-> s0.regs])
              /\ st' = Logged(s0, e)
              /\ last' = [op |-> "init", a |-> e.a, r |-> OkU]
         ELSE LET x == Apply(st, e.op, e.a) IN
              /\ CheckEvent(e, x)
              /\ st' = Logged(st, e)
              /\ last' = [op |-> e.op, a |-> e.a, r |-> x.r]
    /\ l' = l + 1

TraceSpec == TraceInit /\ [][TraceNext]_tvars

Accepted ==
    LET d == TLCGet("stats").diameter IN
    IF d - 1 = Len(Rec) THEN TRUE
    ELSE Print(<<"UNMATCHED", d, ToJson(Rec[d])>>, FALSE)
=============================================================================
