\* test generation: all histories of up to 5 operations (identity mapping, WORD large)
SPECIFICATION Spec
CONSTANTS
  WORD = 1024
  StartVals = {0, 2, 3, 6}
  LenVals = {1, 2}
  MaxPool = 3
  MaxMaps = 3
  MaxOps = 5
  IdSeqs <- Ids3
  TagVals = {77}
ACTION_CONSTRAINT Emit
CONSTRAINT EmitInit
VIEW View
CHECK_DEADLOCK FALSE
