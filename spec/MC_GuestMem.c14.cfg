\* C14 design check: every script of up to 3 per-call behaviours x every start and count, on layouts with
\* touching regions, holes and a target range ending in a hole
SPECIFICATION Spec
CONSTANTS
  WORD = 16
  LemmaAS = 0
  LemmaML = 1
  GenAS = 8
  Layouts <- LayC14
  Backends = {"mmap"}
  PVals = {2}
  AddrVals = {0, 1, 2, 3, 4, 5, 6, 7, 8}
  CntVals = {0, 1, 2, 3, 4, 5, 6}
  BufLens = {0}
  EszVals = {1}
  AtomVals = {1}
  Scripts <- Scripts3
  WrapArm = FALSE
INVARIANTS EintrNeverSurfaces ExactIffFull
PROPERTIES FrameG DirtySoundG NoLossNoDup
VIEW View
CHECK_DEADLOCK FALSE
