\* NEGATIVE configuration: read-modify-write split into load; store - TLC must find a lost mark
SPECIFICATION Spec
CONSTANTS
  WB = 4
  NP = 8
  Scenarios <- ScenariosMC
  Split = TRUE
INVARIANTS NoLostMark EveryMarkCounts NoPhantom NoStray InRange
CHECK_DEADLOCK FALSE
