------------------------------ MODULE AtomicMap ------------------------------
(***************************************************************************)
(* The atomically replaceable guest memory (C11): an ArcSwap cell holding  *)
(* the current map and an update mutex.  A map is an immutable value,      *)
(* modelled by its content (the set of region numbers it contains); every  *)
(* update adds one fresh region, so distinct published maps are distinct   *)
(* values.                                                                 *)
(*   readers :  Load (one atomic load of the cell) -> snapshot             *)
(*   updaters:  Acquire -> Read (current map) -> Store (current + region)  *)
(*              -> Release            (store and release are separate steps)*)
(*              or Abort: the updater dies holding the lock (poisoning)    *)
(* Negative configurations: ReleaseFirst (the mutex is released before the *)
(* store) and NoMutex (Acquire does not exclude) must violate NoLostUpdate.*)
(***************************************************************************)
EXTENDS Naturals, FiniteSets, Sequences, TLC

CONSTANTS Readers, Updaters, MaxUpd, ReleaseFirst, NoMutex

VARIABLES cell, holder, pc, local, cnt, snap, published, added
vars == <<cell, holder, pc, local, cnt, snap, published, added>>

Fresh(u, k) == u * 16 + k

Init == /\ cell = {0} /\ holder = 0
        /\ pc = [t \in Readers \cup Updaters |-> "idle"]
        /\ local = [u \in Updaters |-> {}]
        /\ cnt = [u \in Updaters |-> 0]
        /\ snap = [r \in Readers |-> {}]           \* set of snapshots (contents) the reader holds
        /\ published = {{0}} /\ added = {}

Load(r) == /\ snap' = [snap EXCEPT ![r] = snap[r] \cup {cell}]
           /\ UNCHANGED <<cell, holder, pc, local, cnt, published, added>>

Acquire(u) == /\ pc[u] = "idle" /\ cnt[u] < MaxUpd
              /\ (NoMutex \/ holder = 0)
              /\ holder' = u /\ pc' = [pc EXCEPT ![u] = "locked"]
              /\ UNCHANGED <<cell, local, cnt, snap, published, added>>
Read(u) == /\ pc[u] = "locked"
           /\ local' = [local EXCEPT ![u] = cell] /\ pc' = [pc EXCEPT ![u] = "read"]
           /\ UNCHANGED <<cell, holder, cnt, snap, published, added>>
Store(u) == /\ pc[u] = (IF ReleaseFirst THEN "released" ELSE "read")
            /\ LET n == local[u] \cup {Fresh(u, cnt[u] + 1)} IN
               /\ cell' = n /\ published' = published \cup {n} /\ added' = added \cup {Fresh(u, cnt[u] + 1)}
            /\ cnt' = [cnt EXCEPT ![u] = cnt[u] + 1]
            /\ pc' = [pc EXCEPT ![u] = IF ReleaseFirst THEN "idle" ELSE "stored"]
            /\ UNCHANGED <<holder, local, snap>>
Release(u) == /\ pc[u] = (IF ReleaseFirst THEN "read" ELSE "stored")
              /\ holder' = (IF holder = u THEN 0 ELSE holder)
              /\ pc' = [pc EXCEPT ![u] = IF ReleaseFirst THEN "released" ELSE "idle"]
              /\ UNCHANGED <<cell, local, cnt, snap, published, added>>

\* an updater dies (panics) while it holds the lock, before storing anything: unwinding releases the (now poisoned)
\* mutex; lock() keeps handing out the guard to later updaters (LockResult::Err carries it)
Abort(u) == /\ pc[u] \in {"locked", "read"} /\ ~ReleaseFirst
            /\ holder' = (IF holder = u THEN 0 ELSE holder)
            /\ cnt' = [cnt EXCEPT ![u] = cnt[u] + 1]
            /\ pc' = [pc EXCEPT ![u] = "idle"]
            /\ UNCHANGED <<cell, local, snap, published, added>>

Next == \/ \E r \in Readers : Load(r)
        \/ \E u \in Updaters : Acquire(u) \/ Read(u) \/ Store(u) \/ Release(u) \/ Abort(u)
Spec == Init /\ [][Next]_vars

\* ---- C11 ------------------------------------------------------------------
\* a snapshot is always one complete published map, never a mixture
SnapshotWhole == \A r \in Readers : snap[r] \subseteq published
\* a snapshot never changes: snapshots are values (immutable by construction); a reader only ever gains snapshots
SnapshotStable == [][\A r \in Readers : snap[r] \subseteq snap'[r]]_vars
\* once a replacement has completed, every later load shows it or a later map: the cell only grows
Monotone == [][cell \subseteq cell']_vars
\* no replacement is lost: the current map contains every region any completed update added
NoLostUpdate == added \subseteq cell
MutexInv == Cardinality({u \in Updaters : pc[u] \in {"locked", "read", "stored"}}) <= 1
=============================================================================
