\* test generation (identity mapping: WORD large, nothing wraps): every derivation step and every data
\* operation from every accessor of small containers
SPECIFICATION Spec
CONSTANTS
  WORD = 1024
  Roots <- RootsGenA
  OffVals = {0, 1, 2, 3, 4, 5, 6, 7, 8, 9}
  CntVals = {0, 1, 2, 3, 4, 5, 6, 7, 8, 9}
  EszVals = {0, 1, 2, 3, 4, 8}
  NVals = {0, 1, 2, 3, 4}
  AtomVals = {1, 2, 4, 8}
  BufLens = {0, 1, 2, 3, 7, 8, 9, 10}
  TgtVals <- TgtsGen
  OneShot = TRUE
INVARIANTS Contained
ACTION_CONSTRAINT Emit
CONSTRAINT EmitInit
VIEW View
CHECK_DEADLOCK FALSE
