\* exhaustive design check, thorough tier: 16-value word, geometries up to 9 bytes
SPECIFICATION Spec
CONSTANTS
  WORD = 16
  WB = 64
  InitBS = {0, 1, 2, 3, 5, 8, 9}
  InitPS = {1, 2, 3, 4, 7, 10}
  AddrVals = {0, 1, 2, 3, 4, 5, 6, 7, 8, 9, 10, 11, 12, 13, 14, 15}
  LenVals = {0, 1, 2, 3, 4, 5, 6, 7, 8, 9, 10, 11, 12, 13, 14, 15}
  IdxVals = {0, 1, 2, 3, 4, 5, 6, 7, 8, 9, 10}
  EnlVals = {0, 1, 3}
  BaseVals = {0, 1, 15}
  SOffVals = {0, 1, 2, 15}
  SLenVals = {0, 1, 2, 15}
  MaxBS = 10
  Handles = {1}
  AllowClone = FALSE
INVARIANTS InRange HarvestExact UntrackedClean UntrackedAnswers
PROPERTIES FrameOK RangeExact
VIEW View
CHECK_DEADLOCK FALSE
