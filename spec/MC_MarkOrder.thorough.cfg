SPECIFICATION Spec
CONSTANTS
  NP = 4
  Writes <- WritesT
  Rounds = 4
  MarkFirst = FALSE
INVARIANTS Converges InFlight
CHECK_DEADLOCK FALSE
