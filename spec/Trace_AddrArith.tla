--------------------------- MODULE Trace_AddrArith ---------------------------
(* Every recorded address operation (operands and results as limb sequences) must equal the exact *)
(* meaning LMath.  Events are independent; the only state is the cursor.                         *)
EXTENDS AddrArith, Json, IOUtils

Rec == ndJsonDeserialize(IOEnv.TRACE)
VARIABLE l

Judge(ok, tag, exp) == IF ok THEN TRUE ELSE PrintT(<<"MISMATCH", l, tag, ToJson(exp)>>)

ResEq(lr, xr) == \/ xr.k = "any"
                 \/ /\ lr.k = xr.k
                    /\ \A f \in DOMAIN xr \ {"k"} : f \in DOMAIN lr /\ lr[f] = xr[f]

TraceInit == l = 1
TraceNext == /\ l <= Len(Rec)
             /\ LET e == Rec[l]
                    x == LMath(e.op, e.a.a, e.a.b) IN
                Judge(ResEq(e.r, x), "arith", [exp |-> x])
             /\ l' = l + 1
TraceSpec == TraceInit /\ [][TraceNext]_l

Accepted ==
    LET d == TLCGet("stats").diameter IN
    IF d - 1 = Len(Rec) THEN TRUE
    ELSE Print(<<"UNMATCHED", d, ToJson(Rec[d])>>, FALSE)
=============================================================================
