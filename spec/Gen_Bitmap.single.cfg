\* test generation: one bitmap, every (start,len) of the 8-value word, every geometry
\* (WORD is large here so that no sum wraps: these tests are replayed with the identity mapping)
SPECIFICATION Spec
CONSTANTS
  WORD = 1024
  WB = 64
  InitBS = {0, 1, 2, 3, 4, 5, 6}
  InitPS = {1, 2, 3, 7}
  AddrVals = {0, 1, 2, 3, 4, 5, 6, 7}
  LenVals = {0, 1, 2, 3, 4, 5, 6, 7}
  IdxVals = {0, 1, 2, 3, 4, 5, 6, 7}
  EnlVals = {0, 1, 2}
  BaseVals = {0, 1, 7}
  SOffVals = {0, 1, 2, 7}
  SLenVals = {0, 1, 2, 7}
  MaxBS = 7
  Handles = {1}
  AllowClone = FALSE
INVARIANTS InRange
ACTION_CONSTRAINT Emit
CONSTRAINT EmitInit
VIEW View
CHECK_DEADLOCK FALSE
