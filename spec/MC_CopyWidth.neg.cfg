\* every length 0..16 and every source / destination residue modulo 8 (addresses 8..23); writer/reader interleavings
SPECIFICATION Spec
CONSTANTS
  Totals = {0, 1, 2, 3, 4, 5, 6, 7, 8, 9, 10, 16}
  Addrs = {8, 9, 10, 11, 12, 13, 14, 15, 16, 17, 18, 19, 20, 21, 22, 23}
INVARIANT NeverTears
CHECK_DEADLOCK FALSE
