--------------------------- MODULE Trace_BitmapConc ---------------------------
(***************************************************************************)
(* Judges recorded executions of the real AtomicBitmap under enumerated    *)
(* schedules.  Events are the atomic operations in the total order the     *)
(* baton scheduler produced, with operation begin/end marks.  The memory   *)
(* semantics is GENERIC (the value found must be the model word; the word  *)
(* is updated according to the kind of operation), so any decomposition of *)
(* an operation into atomic steps is accepted; only the accounting rules   *)
(* of BitmapConc are demanded:                                             *)
(*   stray    a step clears / sets only bits its operation is entitled to  *)
(*   harvest  a fetch-and-clear returns exactly the bits its steps cleared *)
(*            and nothing nobody marked                                    *)
(*   landed   when a mark operation ends, each target page was set by it   *)
(*   final    NoLostMark on the final bitmap                               *)
(*   owed     every completed mark counts: its page is set until a step    *)
(*            that came after the mark began clears it                     *)
(***************************************************************************)
EXTENDS BitmapRules, Sequences, TLC, Json, IOUtils

Rec == ndJsonDeserialize(IOEnv.TRACE)

VARIABLES l, size, mw, cur, took, landed, seen, g, since, owed
\* g = ghost record [ever, marked, harvested, cleared]
\* since[t] = pages cleared by any step since thread t's running operation began;
\* owed = pages with a completed mark that nothing has cleared since that mark began (BitmapConc!EveryMarkCounts)
tvars == <<l, size, mw, cur, took, landed, seen, g, since, owed>>

ToSet(seq) == {seq[i] : i \in DOMAIN seq}
Judge(ok, tag, exp) == IF ok THEN TRUE ELSE PrintT(<<"MISMATCH", l, tag, ToJson(exp)>>)
Incons(ok, tag, exp) == IF ok THEN TRUE ELSE PrintT(<<"INCONSISTENT", l, tag, ToJson(exp)>>)

RangeP(s, n) == IF n = 0 THEN {} ELSE {p \in 0 .. size - 1 : p >= s /\ p - s < n}
OpOf(b) == CASE b.k \in {"set_range"} -> [k |-> "mark", pages |-> RangeP(b.s, b.l)]
             [] b.k = "mark_slice" -> [k |-> "mark", pages |-> RangeP(b.b + b.s, b.l)]
             [] b.k = "set_bit" -> [k |-> "mark", pages |-> {b.i}]
             [] b.k = "reset_range" -> [k |-> "unmark", pages |-> RangeP(b.s, b.l)]
             [] b.k = "reset_bit" -> [k |-> "unmark", pages |-> {b.i}]
             [] b.k = "harvest" -> [k |-> "harvest"]
             [] b.k = "reset" -> [k |-> "reset"]
             [] b.k = "clone" -> [k |-> "clone"]
             [] OTHER -> [k |-> "query"]

NoOp == [k |-> "none"]
Word(j) == IF j \in DOMAIN mw THEN mw[j] ELSE {}
P64(j, bits) == {j * 64 + b : b \in bits}
BitsNow(m) == UNION {P64(j, m[j]) : j \in DOMAIN m}

TraceInit == /\ l = 1 /\ size = 0 /\ mw = <<>> /\ cur = <<>> /\ took = <<>> /\ landed = <<>> /\ seen = <<>> /\ since = <<>> /\ owed = {}
             /\ g = [ever |-> {}, marked |-> {}, harvested |-> {}, cleared |-> {}]

EverOf(threads) == UNION {UNION {LET o == threads[t][i] IN
                                   IF o.k = "set_range" THEN {p \in 0 .. 400 : p >= o.s /\ p - o.s < o.l}
                                   ELSE IF o.k = "mark_slice" THEN {p \in 0 .. 400 : p >= o.b + o.s /\ p - (o.b + o.s) < o.l}
                                   ELSE IF o.k = "set_bit" THEN {o.i} ELSE {} : i \in 1 .. Len(threads[t])} : t \in 1 .. Len(threads)}

TraceNext ==
    /\ l <= Len(Rec)
    /\ LET e == Rec[l] IN
       CASE e.op = "init" ->
              /\ size' = e.a.size
              /\ mw' = [j \in 0 .. ((e.a.size + 63) \div 64) - 1 |-> {}]
              /\ cur' = [t \in 1 .. Len(e.a.threads) |-> NoOp]
              /\ took' = [t \in 1 .. Len(e.a.threads) |-> {}]
              /\ landed' = [t \in 1 .. Len(e.a.threads) |-> {}]
              /\ seen' = [t \in 1 .. Len(e.a.threads) |-> {}]
              /\ since' = [t \in 1 .. Len(e.a.threads) |-> {}] /\ owed' = {}
              /\ g' = [ever |-> EverOf(e.a.threads) \cap (0 .. e.a.size - 1), marked |-> {}, harvested |-> {}, cleared |-> {}]
         [] e.op = "final" ->
              /\ Incons(ToSet(e.a.bits) = BitsNow(mw), "final_bits", [bits |-> BitsNow(mw)])
              /\ Judge(g.marked \subseteq (g.harvested \cup BitsNow(mw) \cup g.cleared), "lost_mark",
                       [marked |-> g.marked, harvested |-> g.harvested, bits |-> BitsNow(mw), cleared |-> g.cleared])
              /\ Judge(g.harvested \subseteq g.ever, "phantom", [harvested |-> g.harvested, ever |-> g.ever])
              /\ Judge(owed \subseteq BitsNow(mw), "mark_not_counted", [owed |-> owed, bits |-> BitsNow(mw)])
              /\ UNCHANGED <<size, mw, cur, took, landed, seen, g, since, owed>>
         [] e.op = "step" ->
              LET a == e.a
                  t == a.t
                  op == IF "begin" \in DOMAIN a THEN OpOf(a.begin) ELSE cur[t]
                  fresh == "begin" \in DOMAIN a
                  j == a.w
                  v == Word(j)
                  nv == IF a.kind = "noop" THEN v ELSE Effect(a.kind, v, ToSet(a.arg))
                  clearedP == P64(j, v \ nv)
                  setP == P64(j, nv \ v)
                  took1 == (IF fresh THEN {} ELSE took[t]) \cup (IF op.k = "harvest" THEN clearedP ELSE {})
                  seen1 == (IF fresh THEN {} ELSE seen[t]) \cup (IF a.kind \notin {"noop", "store"} THEN P64(j, v) ELSE {})
                  land1 == (IF fresh THEN {} ELSE landed[t]) \cup (IF a.kind = "noop" THEN {} ELSE P64(j, nv))
                  ended == "end" \in DOMAIN a
                  mw1 == IF a.kind = "noop" \/ j \notin DOMAIN mw THEN mw ELSE [mw EXCEPT ![j] = nv]
                  since0 == IF fresh THEN [since EXCEPT ![t] = {}] ELSE since
                  since1 == [u \in DOMAIN since0 |-> since0[u] \cup clearedP]
                  owed1 == (owed \ clearedP) \cup (IF ended /\ op.k = "mark" THEN TargetN(op, size) \ since1[t] ELSE {})
              IN
              /\ Incons(a.kind \in {"noop", "store"} \/ (j \in DOMAIN mw /\ ToSet(a.old) = v), "old_value", [word |-> j, model |-> v])
              /\ Judge(clearedP \subseteq MayClearN(op, size) /\ setP \subseteq MaySetN(op, size), "stray",
                       [op |-> op, cleared |-> clearedP, set |-> setP])
              /\ Judge((ended /\ op.k = "harvest") => (a.end.k = "pages" /\ ToSet(a.end.pages) = took1), "harvest_result", [took |-> took1])
              /\ Judge((ended /\ op.k = "clone") => (a.end.k = "pages" /\ ToSet(a.end.pages) \subseteq seen1 /\ ToSet(a.end.pages) \subseteq g.ever),
                       "clone_result", [seen |-> seen1])
              /\ Judge((ended /\ op.k = "mark") => TargetN(op, size) \subseteq land1, "mark_landed", [target |-> TargetN(op, size), landed |-> land1])
              /\ Judge(ended => a.end.k # "panic", "panic", [op |-> op])
              /\ Judge(owed1 \subseteq BitsNow(mw1), "mark_not_counted", [owed |-> owed1, bits |-> BitsNow(mw1)])
              /\ mw' = mw1
              /\ since' = since1 /\ owed' = owed1
              /\ cur' = [cur EXCEPT ![t] = IF ended THEN NoOp ELSE op]
              /\ took' = [took EXCEPT ![t] = took1]
              /\ seen' = [seen EXCEPT ![t] = seen1]
              /\ landed' = [landed EXCEPT ![t] = land1]
              /\ g' = [g EXCEPT !.marked = IF ended /\ op.k = "mark" THEN g.marked \cup TargetN(op, size) ELSE g.marked,
                                !.harvested = IF ended /\ op.k = "harvest" /\ a.end.k = "pages" THEN g.harvested \cup ToSet(a.end.pages) ELSE g.harvested,
                                !.cleared = IF op.k \in {"unmark", "reset"} THEN g.cleared \cup clearedP ELSE g.cleared]
              /\ UNCHANGED size
    /\ l' = l + 1

TraceSpec == TraceInit /\ [][TraceNext]_tvars

Accepted ==
    LET d == TLCGet("stats").diameter IN
    IF d - 1 = Len(Rec) THEN TRUE ELSE Print(<<"UNMATCHED", d, ToJson(Rec[d])>>, FALSE)
=============================================================================
