\* test generation (identity mapping): every layout of up to 2 regions (length 1..3) in an 8-address
\* universe, every query at every address, every data operation at every start and length
SPECIFICATION Spec
CONSTANTS
  WORD = 1024
  LemmaAS = 0
  LemmaML = 1
  GenAS = 8
  Layouts <- LayGen2
  Backends = {"mmap", "custom"}
  PVals = {2}
  AddrVals = {0, 1, 2, 3, 4, 5, 6, 7, 8}
  CntVals = {0, 1, 2, 3, 9}
  BufLens = {0, 1, 2, 4, 9}
  EszVals = {0, 1, 2, 4}
  AtomVals = {1, 2, 4}
  Scripts <- ScriptsNone
  WrapArm = FALSE
ACTION_CONSTRAINT Emit
CONSTRAINT EmitInit
VIEW View
CHECK_DEADLOCK FALSE
