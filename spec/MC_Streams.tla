----------------------------- MODULE MC_Streams -----------------------------
EXTENDS Streams, Json
D(n) == SubSeq(<<1, 2, 3, 4, 5, 6, 7, 8, 9, 10, 11, 12>>, 1, n)
Z(n) == SubSeq(<<0, 0, 0, 0, 0, 0, 0, 0, 0, 0, 0, 0>>, 1, n)
StreamsMC == {[cls |-> c, data |-> D(n), pos |-> 0, ops |-> 0] : c \in {"src", "cur_src", "file", "grow"}, n \in {0, 1, 3, 9, 10}}
             \cup {[cls |-> c, data |-> Z(n), pos |-> 0, ops |-> 0] : c \in {"sink", "cur_sink"}, n \in {0, 1, 3, 9, 10}}
Emit == PrintT(<<"EDGE", ToJson([f |-> st, act |-> last', t |-> st'])>>)
EmitInit == (last.op = "init") => PrintT(<<"INIT", ToJson([t |-> st, act |-> last])>>)
\* bound the exploration: a history is at most Depth operations (state constraint on a counter-free measure)
Depth2 == st.ops <= 1
Depth3 == st.ops <= 2
Depth4 == st.ops <= 3
Depth5 == st.ops <= 4
=============================================================================
