SPECIFICATION TraceSpec
CONSTANTS
  WORD = 1073741824
  Sizes = {}
  FLens = {}
  FOffs = {}
POSTCONDITION Accepted
CHECK_DEADLOCK FALSE
