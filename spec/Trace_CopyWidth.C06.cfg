SPECIFICATION TraceSpec
CONSTANTS
  Totals = {}
  Addrs = {}
POSTCONDITION Accepted
CHECK_DEADLOCK FALSE
