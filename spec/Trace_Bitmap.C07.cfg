SPECIFICATION TraceSpec
CONSTANTS
  WORD = 1073741824
  WB = 64
  InitBS = {0}
  InitPS = {1}
  AddrVals = {0}
  LenVals = {0}
  IdxVals = {0}
  EnlVals = {0}
  BaseVals = {0}
  SOffVals = {0}
  SLenVals = {0}
  MaxBS = 0
  Handles = {1, 2}
  AllowClone = TRUE
  Check = {"nopanic"}
INVARIANT TraceInRange
POSTCONDITION Accepted
CHECK_DEADLOCK FALSE
