------------------------------ MODULE Gen_System ------------------------------
(* Behaviours of System, printed as programs for the executor: tlc -simulate carries the history of      *)
(* (operation, arguments) pairs and prints it when the behaviour ends (operation budget used up).         *)
(* TLC's simulator picks uniformly among successor STATES, which would make the operations with many     *)
(* argument combinations (write, build) crowd out the others; so a behaviour alternates between picking   *)
(* an operation kind (uniform over kinds) and taking one step of that kind (uniform over its arguments).  *)
EXTENDS MC_System, Json
VARIABLES hist, kind
gvars == <<st, last, hist, kind>>
Pair(op, a) == [op |-> op, a |-> a]
Kinds == {"create", "build", "insert", "remove", "atomic", "snap", "replace", "clone", "drop", "write", "read", "reset"}
Act(k) ==
    \/ (k = "create" /\ Create)
    \/ (k = "build" /\ Build)
    \/ (k = "insert" /\ Insert)
    \/ (k = "remove" /\ Remove)
    \/ (k = "atomic" /\ Atomic)
    \/ (k = "snap" /\ Snap)
    \/ (k = "replace" /\ Replace)
    \/ (k = "clone" /\ Clone)
    \/ (k = "drop" /\ Drop)
    \/ (k = "write" /\ Write)
    \/ (k = "read" /\ Read)
    \/ (k = "reset" /\ Reset)
GInit == Init /\ hist = WarmProg /\ kind = ""
PickK == kind = "" /\ st.ops < MaxOps /\ (\E k \in Kinds : kind' = k) /\ UNCHANGED <<st, last, hist>>
DoK   == kind # "" /\ kind' = ""
         /\ \/ Act(kind) /\ hist' = Append(hist, Pair(last'.op, last'.a))
            \/ ~ENABLED Act(kind) /\ UNCHANGED <<st, last, hist>>
GNext == PickK \/ DoK
GSpec == GInit /\ [][GNext]_gvars
Emit == (st.ops = MaxOps /\ kind = "") => PrintT(<<"HIST", ToJson(hist)>>)
=============================================================================
