SPECIFICATION Spec
CONSTANTS
  Cands <- CandsS
  P = 2
  MaxRegs = 3
  MaxHandles = 9
  MaxCells = 1
  MaxOps = 3
  Addrs <- AddrsMC
  Lens = {1, 3, 6}
  IdSeqs <- IdSeqsMC
  Warm = 1
  Variant = "inplace"
PROPERTIES Immutable
VIEW View
CHECK_DEADLOCK FALSE
