--------------------------- MODULE Trace_Ownership ---------------------------
(* After every operation the harness reports, from /proc/self/maps, how many bytes of each mapping's    *)
(* uniquely named backing file are mapped.  An owned mapping must be fully mapped exactly while the      *)
(* specification says something can still reach it (no leak, no premature or partial unmap); a mapping   *)
(* provided from outside must stay mapped; reads through live handles must reach the right regions.      *)
EXTENDS Ownership, Json, IOUtils
Rec == ndJsonDeserialize(IOEnv.TRACE)
VARIABLE l
tvars == <<st, last, l>>
ToSet(seq) == {seq[i] : i \in DOMAIN seq}
Judge(ok, tag, exp) == IF ok THEN TRUE ELSE PrintT(<<"MISMATCH", l, tag, ToJson(exp)>>)

Empty == [maps |-> <<>>, rcR |-> <<>>, arcs |-> <<>>, rcA |-> <<>>, cells |-> <<>>, rcC |-> <<>>, slots |-> <<>>, ops |-> 0]
TraceInit == st = Empty /\ last = [op |-> "none", a |-> [x |-> 0], r |-> Ok(0)] /\ l = 1

MapsOK(s, obs) == /\ Len(obs.maps) = Len(s.maps)
                  /\ \A m \in DOMAIN s.maps :
                        /\ obs.maps[m].kind = s.maps[m].kind
                        /\ obs.maps[m].bytes = (IF s.maps[m].mapped THEN obs.maps[m].size ELSE 0)
                        /\ obs.nslots = Len(s.slots)
Expected(s) == [m \in DOMAIN s.maps |-> [kind |-> s.maps[m].kind, mapped |-> s.maps[m].mapped]]

TraceNext ==
    /\ l <= Len(Rec)
    /\ LET e == Rec[l] IN
         IF e.op = "init"
         THEN st' = Empty /\ last' = [op |-> "init", a |-> e.a, r |-> Ok(0)]
         ELSE LET x == Apply(st, e.op, e.a) IN
              /\ Judge(e.r.k = x.r.k, "result", [res |-> x.r])
              /\ Judge((x.r.k = "ok" /\ "regs" \in DOMAIN x.r) => ToSet(e.r.regs) = x.r.regs, "read", [res |-> x.r])
              /\ Judge(MapsOK(x.st, e.s), "mapped", [expected |-> Expected(x.st)])
              /\ st' = x.st
              /\ last' = [op |-> e.op, a |-> e.a, r |-> x.r]
    /\ l' = l + 1
TraceSpec == TraceInit /\ [][TraceNext]_tvars
Accepted ==
    LET d == TLCGet("stats").diameter IN
    IF d - 1 = Len(Rec) THEN TRUE ELSE Print(<<"UNMATCHED", d, ToJson(Rec[d])>>, FALSE)
=============================================================================
