SPECIFICATION TraceSpec
CONSTANTS
  Kinds = {}
  MaxMaps = 0
  MaxSlots = 0
  MaxOps = 0
POSTCONDITION Accepted
CHECK_DEADLOCK FALSE
