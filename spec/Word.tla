------------------------------- MODULE Word -------------------------------
(***************************************************************************)
(* Machine-word arithmetic as the crate uses it.                           *)
(*                                                                         *)
(* WORD models 2^64 (u64 / usize on the only target built here).  In the   *)
(* exhaustive configurations WORD is small (8..32) and every operand is    *)
(* enumerated; in trace validation and in the "hi" generation universe it  *)
(* is 2^30 and numbers live in three bands (near 0, near WORD/2, near WORD)*)
(* that the orchestrator maps to 0, 2^63 and 2^64 (DESIGN.md section 3).   *)
(* TLC integers are 32-bit, so every operator below is written so that no  *)
(* intermediate value exceeds 2^31-1 when its operands are < WORD = 2^30.  *)
(***************************************************************************)
EXTENDS Naturals, Integers

CONSTANT WORD            \* modulus of usize / u64 arithmetic

NONE == -1               \* Option::None / overflow marker (all real values are >= 0)
TRAP == -2               \* an unchecked `+ - *` that panics in a build with overflow checks

IMAX == (WORD \div 2) - 1       \* isize::MAX
UMAX == WORD - 1                \* usize::MAX / u64::MAX

Min(a, b) == IF a <= b THEN a ELSE b
Max(a, b) == IF a >= b THEN a ELSE b

IsWord(a) == a \in Nat /\ a < WORD

CheckedAdd(a, b) == IF a + b < WORD THEN a + b ELSE NONE
CheckedSub(a, b) == IF a >= b THEN a - b ELSE NONE
\* a * b without ever computing an out-of-range product (b may be 0)
CheckedMul(a, b) == IF b = 0 \/ a = 0 THEN 0
                    ELSE IF a > (WORD - 1) \div b THEN NONE ELSE a * b
\* the same bounded by isize::MAX (get_array_ref computes n * size_of::<T>() in isize)
CheckedMulI(a, b) == IF a > IMAX THEN NONE ELSE IF b = 0 \/ a = 0 THEN 0
                     ELSE IF a > IMAX \div b THEN NONE ELSE a * b

SatAdd(a, b)  == Min(a + b, WORD - 1)
WrapAdd(a, b) == (a + b) % WORD
WrapSub(a, b) == (a - b + WORD) % WORD
OvfAdd(a, b)  == <<WrapAdd(a, b), a + b >= WORD>>
OvfSub(a, b)  == <<WrapSub(a, b), a < b>>

\* plain `+`, `-` of the code: TRAP where a checked build panics
UAdd(a, b) == IF a + b < WORD THEN a + b ELSE TRAP
USub(a, b) == IF a >= b THEN a - b ELSE TRAP

DivCeil(a, b) == (a + b - 1) \div b

IsPow2(p) == p \in {1, 2, 4, 8, 16, 32, 64, 128, 256, 512, 1024, 2048, 4096}
=============================================================================
