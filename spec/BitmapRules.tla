---------------------------- MODULE BitmapRules ----------------------------
(* Constant-level definitions shared by the BitmapConc model and by Trace_BitmapConc:               *)
(* generic atomic-memory semantics and what each kind of bitmap operation is entitled to clear/set. *)
EXTENDS Naturals, Integers

\* ---- generic atomic memory ------------------------------------------------
\* new value of a word holding v after an atomic operation `kind` with operand a (both sets of bit positions)
Effect(kind, v, a) ==
    CASE kind = "load"      -> v
      [] kind \in {"store", "swap"} -> a
      [] kind = "fetch_or"  -> v \cup a
      [] kind = "fetch_and" -> v \cap a
      [] kind = "fetch_xor" -> (v \ a) \cup (a \ v)

\* ---- what an operation is entitled to do ------------------------------------
\* operations: [k |-> "mark", pages |-> set], [k |-> "unmark", pages |-> set], [k |-> "harvest"], [k |-> "reset"],
\*             [k |-> "clone"], [k |-> "query"]
\* (parametrised by the page count so that the trace specification can apply them to bitmaps of any size)
TargetN(op, np) == IF op.k \in {"mark", "unmark"} THEN op.pages \cap (0 .. np - 1) ELSE {}
MayClearN(op, np) == CASE op.k = "unmark" -> TargetN(op, np)
                       [] op.k \in {"harvest", "reset"} -> 0 .. np - 1
                       [] OTHER -> {}
MaySetN(op, np) == IF op.k = "mark" THEN TargetN(op, np) ELSE {}
=============================================================================
