SPECIFICATION Spec
CONSTANTS
  MaxOff = 40
  MaxLen = 40
  PS = {1, 2, 3, 4, 8, 16}
INVARIANTS WindowCovers WindowTight
CHECK_DEADLOCK FALSE
