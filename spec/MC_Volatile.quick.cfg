\* exhaustive design check: 16-value word, every offset/count, one data operation per history
SPECIFICATION Spec
CONSTANTS
  WORD = 16
  Roots <- RootsMC
  OffVals = {0, 1, 2, 3, 4, 5, 6, 15}
  CntVals = {0, 1, 2, 3, 4, 5, 6, 15}
  EszVals = {0, 1, 2, 3, 4}
  NVals = {0, 1, 2, 3, 7}
  AtomVals = {1, 2, 4}
  BufLens = {0, 1, 2, 3, 5}
  TgtVals <- TgtsMC
  OneShot = TRUE
INVARIANTS Contained AlignedRefs DirtyInRange OnlyDocumentedPanics
PROPERTIES ContainedInParent ErrNoAccessor Frame DirtySound DirtyConfined ReadsMarkNothing ZeroLenNoop
VIEW View
CHECK_DEADLOCK FALSE
