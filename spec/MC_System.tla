------------------------------ MODULE MC_System ------------------------------
EXTENDS System
\* two adjacent ranges, one overlapping both, one apart, one duplicate of the first (same guest range, another object)
CandsMC == << [s |-> 0, n |-> 4], [s |-> 4, n |-> 4], [s |-> 2, n |-> 4], [s |-> 10, n |-> 3], [s |-> 0, n |-> 4] >>
CandsS  == << [s |-> 0, n |-> 4], [s |-> 4, n |-> 4], [s |-> 2, n |-> 4], [s |-> 0, n |-> 4] >>
SeqsUpTo(S, n) == UNION {[1 .. k -> S] : k \in 1 .. n}
IdSeqsMC == SeqsUpTo(1 .. 3, 2) \cup {<<1, 2, 3>>, <<2, 1, 3>>}
IdSeqsSim == SeqsUpTo(1 .. 6, 2) \cup {q \in [1 .. 3 -> 1 .. 6] : q[1] < q[2] /\ q[2] < q[3]}
AddrsMC == {0, 3, 5, 7}
AddrsQ == {0, 3}
CandsQ  == << [s |-> 0, n |-> 4], [s |-> 4, n |-> 4], [s |-> 2, n |-> 4] >>
IdSeqsQ == SeqsUpTo(1 .. 3, 2)
AddrsSim == {0, 1, 2, 3, 4, 5, 6, 7, 9, 10, 11, 12}
\* Gen: carry the history and print it when the behaviour ends (tlc -simulate)
=============================================================================
