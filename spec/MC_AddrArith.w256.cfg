\* every operand pair of an 8-bit word (the width of the crate's macro instantiated by hook H6),
\* limbs: 2 x base 16
SPECIFICATION Spec
CONSTANTS
  WORD = 256
  LB = 16
  LK = 2
INVARIANTS ImplIsMath LimbsAreExact RoundTrip
CHECK_DEADLOCK FALSE
