----------------------------- MODULE Trace_System -----------------------------
(* Recorded histories of the real objects living together (executor `sys`): after EVERY step the harness  *)
(* projects, for every handle the client holds, the region objects it reaches (identified by the host     *)
(* address of their mapping), their bytes and dirty pages READ THROUGH THAT HANDLE, and for every region   *)
(* object ever created whether its backing file is still mapped.  All of it must equal the specification   *)
(* state; the state is NOT re-synchronised from the log (the composition is the point), so only the first  *)
(* mismatch of a history counts.  `Check` selects the conjuncts a property is entitled to:                  *)
(*   maps (C10)  snapshot, snapdata (C11)  data (C03)  dirty_sound (C05)  dirty_precise (C16)  mapped (C12)           *)
EXTENDS MC_System, Json, IOUtils
CONSTANT Check
Rec == ndJsonDeserialize(IOEnv.TRACE)
VARIABLE l
tvars == <<st, last, l>>
Judge(ok, tag, exp) == IF ok THEN TRUE ELSE PrintT(<<"MISMATCH", l, tag, ToJson(exp)>>)
On(tag) == tag \in Check
SetOf(q) == {q[i] : i \in 1 .. Len(q)}

\* the region list a handle denotes in the specification state
Denotes(s, h) == LET hd == s.hs[h] IN
                 CASE hd.k = "region" -> <<hd.r>>
                   [] hd.k \in {"map", "snap"} -> hd.rs
                   [] hd.k = "cell" -> s.cells[hd.c]
                   [] OTHER -> <<>>

Shape(s, ls) == /\ Len(ls.hs) = Len(s.hs)
                /\ \A h \in 1 .. Len(s.hs) : ls.hs[h].k = s.hs[h].k
                /\ Len(ls.mapped) = Len(s.regs)
\* which region objects, in which order, with which geometry - per handle kind
Lists(s, ls, kinds) ==
    \A h \in 1 .. Len(s.hs) : s.hs[h].k \in kinds =>
        LET d == Denotes(s, h) IN
        /\ Len(ls.hs[h].regs) = Len(d)
        /\ \A i \in 1 .. Len(d) : LET o == ls.hs[h].regs[i] IN o.r = d[i] /\ o.s = s.regs[d[i]].s /\ o.n = s.regs[d[i]].n
\* the bytes of every region object as read through every handle that reaches it
BytesOK(s, ls) ==
    \A h \in 1 .. Len(s.hs) : \A i \in 1 .. Len(ls.hs[h].regs) :
        LET o == ls.hs[h].regs[i] IN
        (o.r \in 1 .. Len(s.regs)) => (o.got = o.n /\ o.mem = s.regs[o.r].mem)
DirtySoundOK(s, ls) ==
    \A h \in 1 .. Len(s.hs) : \A i \in 1 .. Len(ls.hs[h].regs) :
        LET o == ls.hs[h].regs[i] IN (o.r \in 1 .. Len(s.regs)) => s.regs[o.r].dirty \subseteq SetOf(o.dirty)
DirtyPreciseOK(s, ls) ==
    \A h \in 1 .. Len(s.hs) : \A i \in 1 .. Len(ls.hs[h].regs) :
        LET o == ls.hs[h].regs[i] IN (o.r \in 1 .. Len(s.regs)) => SetOf(o.dirty) \subseteq s.regs[o.r].dirty
MappedOK(s, ls) == \A r \in 1 .. Len(s.regs) : ls.mapped[r] # 2 => ((ls.mapped[r] = 1) <=> (r \in Reach(s)))    \* 2: anonymous, cannot tell
\* C11: what a snapshot (or the cell) shows stays readable with the bytes it had
SnapBytesOK(s, ls) ==
    \A h \in 1 .. Len(s.hs) : s.hs[h].k \in {"snap", "cell"} => \A i \in 1 .. Len(ls.hs[h].regs) :
        LET o == ls.hs[h].regs[i] IN (o.r \in 1 .. Len(s.regs)) => (o.got = o.n /\ o.mem = s.regs[o.r].mem)

\* (which of two applicable refusals of from_arc_regions is reported is not compared: Regions.tla, FromErrSet)
ResEq(lr, xr) == /\ lr.k = xr.k
                 /\ \A f \in DOMAIN xr \ {"k", "e"} : f \in DOMAIN lr /\ lr[f] = xr[f]
                 /\ (xr.k = "err" => lr.e \in {"NoMemoryRegion", "UnsortedMemoryRegions", "MemoryRegionOverlap", "InvalidGuestAddress"})
ResTag(op) == IF op \in {"write", "read"} THEN "data" ELSE IF op \in {"snap", "replace", "atomic"} THEN "snapshot" ELSE "maps"

TraceInit == st = Cold /\ last = [op |-> "none", a |-> [x |-> 0], r |-> Ok(0)] /\ l = 1
TraceNext ==
    /\ l <= Len(Rec)
    /\ LET e == Rec[l] IN
         IF e.op = "init"
         THEN /\ st' = Cold
              /\ last' = [op |-> "init", a |-> [x |-> 0], r |-> Ok(0)]
         ELSE LET x == Apply(st, e.op, e.a)
                  s == x.st IN
              /\ Judge(e.r.k = x.r.k /\ (x.r.k = "skip" \/ Shape(s, e.s)), "shape", [res |-> x.r.k, handles |-> Len(s.hs)])
              /\ (e.r.k = x.r.k /\ x.r.k # "skip" /\ Shape(s, e.s)) =>
                   /\ (On(ResTag(e.op)) => Judge(ResEq(e.r, x.r), ResTag(e.op), [res |-> x.r]))
                   /\ (On("maps") => Judge(Lists(s, e.s, {"region", "map"}), "maps", [op |-> e.op]))
                   /\ (On("snapshot") => Judge(Lists(s, e.s, {"snap", "cell"}), "snapshot", [op |-> e.op]))
                   /\ (On("data") => Judge(BytesOK(s, e.s), "data", [op |-> e.op]))
                   /\ (On("snapdata") => Judge(SnapBytesOK(s, e.s), "snapdata", [op |-> e.op]))
                   /\ (On("dirty_sound") => Judge(DirtySoundOK(s, e.s), "dirty_sound", [op |-> e.op]))
                   /\ (On("dirty_precise") => Judge(DirtyPreciseOK(s, e.s), "dirty_precise", [op |-> e.op]))
                   /\ (On("mapped") => Judge(MappedOK(s, e.s), "mapped", [reach |-> Reach(s)]))
              /\ st' = s
              /\ last' = [op |-> e.op, a |-> [x |-> 0], r |-> [k |-> x.r.k]]
    /\ l' = l + 1
TraceSpec == TraceInit /\ [][TraceNext]_tvars
Accepted ==
    LET d == TLCGet("stats").diameter IN
    IF d - 1 = Len(Rec) THEN TRUE ELSE Print(<<"UNMATCHED", d, ToJson(Rec[d])>>, FALSE)
=============================================================================
