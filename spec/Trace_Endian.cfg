SPECIFICATION TraceSpec
CONSTANTS
  Host = "le"
POSTCONDITION Accepted
CHECK_DEADLOCK FALSE
