\* every history of up to 6 operations over 2 mappings (owned / externally provided) and 5 handle slots:
\* create, build map, insert, remove, clone, make replaceable, snapshot, replace, drop in every order
SPECIFICATION Spec
CONSTANTS
  Kinds = {"owned", "raw", "failed_build", "failed_wrap"}
  MaxMaps = 2
  MaxSlots = 5
  MaxOps = 6
INVARIANTS MappedIffReachable UnmapOnce RawNeverUnmapped NoDangling FailedNeverMapped
CONSTRAINT Bounded
VIEW View
CHECK_DEADLOCK FALSE
