------------------------------ MODULE Ownership ------------------------------
(***************************************************************************)
(* Who keeps a mapping alive (C12).  Objects:                              *)
(*   mappings  1..NM : [kind \in {"owned","raw"}, mapped, unmaps]          *)
(*             region r is the (only) region handle wrapping mapping r     *)
(*   arcs      immutable map values behind an Arc: arc id -> Seq(region)   *)
(*   cells     replaceable memories (GuestMemoryAtomic): cell -> arc id    *)
(*   slots     what the client program holds:                              *)
(*       [k |-> "region", r]     an Arc<GuestRegionMmap>                   *)
(*       [k |-> "map", regs]     a GuestMemoryMmap value (owns Arc clones) *)
(*       [k |-> "arc", a]        an Arc<map> or a load guard holding one   *)
(*       [k |-> "atomic", c]     a handle to a replaceable memory          *)
(*       [k |-> "dead"]                                                    *)
(* The implementation-shaped part keeps reference counts (rcR per region,  *)
(* rcA per arc, rcC per cell) the way Arc does and unmaps an owned mapping *)
(* when its count reaches zero; TLC checks that this equals the abstract   *)
(* reading "mapped exactly while something can still reach it".            *)
(***************************************************************************)
EXTENDS Naturals, FiniteSets, Sequences, TLC

CONSTANTS Kinds,      \* mapping kinds created: subset of {"owned", "raw"}
          MaxMaps,    \* mappings created per history
          MaxSlots, MaxOps

VARIABLES st, last
vars == <<st, last>>

Dead == [k |-> "dead"]
Res(s, r) == [st |-> s, r |-> r]
Ok(v) == [k |-> "ok", v |-> v]
Skip == [k |-> "skip"]

Range(f) == {f[i] : i \in DOMAIN f}

\* ---- abstract reachability ----------------------------------------------------
RegsOfSlot(s, sl) == CASE sl.k = "region" -> {sl.r}
                       [] sl.k = "map" -> Range(sl.regs)
                       [] sl.k = "arc" -> Range(s.arcs[sl.a])
                       [] sl.k = "atomic" -> Range(s.arcs[s.cells[sl.c]])
                       [] OTHER -> {}
Reachable(s) == UNION {RegsOfSlot(s, s.slots[i]) : i \in DOMAIN s.slots}

\* ---- reference counting as Arc does it ---------------------------------------------
\* dropping one reference to region r
DecR(s, r) == IF s.rcR[r] = 1
              THEN [s EXCEPT !.rcR[r] = 0,
                             !.maps[r] = IF s.maps[r].kind = "owned"
                                         THEN [s.maps[r] EXCEPT !.mapped = FALSE, !.unmaps = s.maps[r].unmaps + 1]
                                         ELSE s.maps[r]]
              ELSE [s EXCEPT !.rcR[r] = s.rcR[r] - 1]
RECURSIVE DecRs(_, _)
DecRs(s, regs) == IF regs = <<>> THEN s ELSE DecRs(DecR(s, Head(regs)), Tail(regs))
IncRs(s, regs) == [s EXCEPT !.rcR = [r \in DOMAIN s.rcR |-> s.rcR[r] + Cardinality({i \in DOMAIN regs : regs[i] = r})]]
\* dropping one reference to arc a: the map value dies with the last one
DecA(s, a) == IF s.rcA[a] = 1 THEN DecRs([s EXCEPT !.rcA[a] = 0], s.arcs[a]) ELSE [s EXCEPT !.rcA[a] = s.rcA[a] - 1]
DecC(s, c) == IF s.rcC[c] = 1 THEN DecA([s EXCEPT !.rcC[c] = 0], s.cells[c]) ELSE [s EXCEPT !.rcC[c] = s.rcC[c] - 1]

DropSlot(s, i) ==
    LET sl == s.slots[i]
        s1 == [s EXCEPT !.slots[i] = Dead] IN
    CASE sl.k = "region" -> DecR(s1, sl.r)
      [] sl.k = "map" -> DecRs(s1, sl.regs)
      [] sl.k = "arc" -> DecA(s1, sl.a)
      [] sl.k = "atomic" -> DecC(s1, sl.c)
      [] OTHER -> s1

Push(s, sl) == [s EXCEPT !.slots = Append(s.slots, sl)]
NewArc(s, regs) == [s EXCEPT !.arcs = Append(s.arcs, regs), !.rcA = Append(s.rcA, 1)]     \* refcount 1 for the creator

Live(s, i, kind) == i \in DOMAIN s.slots /\ s.slots[i].k = kind

SortedBy(s, regs) == \A i \in 1 .. Len(regs) - 1 : s.maps[regs[i]].start < s.maps[regs[i + 1]].start

Apply(s, op, a) ==
  CASE op = "create" /\ a.kind \in {"failed_build", "failed_wrap"} ->
         \* a creation request that is refused (file range past the end of the file; guest range past 2^64): nothing may
         \* stay mapped and no handle exists - the mapping is recorded so that the observer keeps watching its file
         Res([s EXCEPT !.maps = Append(s.maps, [kind |-> a.kind, mapped |-> FALSE, unmaps |-> 0, start |-> Len(s.maps) + 1]),
                       !.rcR = Append(s.rcR, 0)], [k |-> "err"])
    [] op = "create" ->        \* a new mapping, wrapped into a region handle
         LET m == Len(s.maps) + 1
             \* ("owned_huge": an owned mapping of 2 MiB + 4 KiB carrying the hugetlbfs hint - the same ownership rules)
             s1 == [s EXCEPT !.maps = Append(s.maps, [kind |-> IF a.kind = "owned_huge" THEN "owned" ELSE a.kind, mapped |-> TRUE, unmaps |-> 0, start |-> m]),
                             !.rcR = Append(s.rcR, 1)] IN
         Res(Push(s1, [k |-> "region", r |-> m]), Ok(Len(s.slots) + 1))
    [] op = "build_map" ->     \* from_arc_regions over clones of region handles
         IF ~(\A i \in DOMAIN a.slots : Live(s, a.slots[i], "region")) \/ Len(a.slots) = 0 THEN Res(s, Skip)
         ELSE LET regs == [i \in DOMAIN a.slots |-> s.slots[a.slots[i]].r] IN
              IF ~SortedBy(s, regs) THEN Res(s, Skip)
              ELSE Res(Push(IncRs(s, regs), [k |-> "map", regs |-> regs]), Ok(Len(s.slots) + 1))
    [] op = "insert" ->
         IF ~Live(s, a.m, "map") \/ ~Live(s, a.r, "region") \/ s.slots[a.r].r \in Range(s.slots[a.m].regs) THEN Res(s, Skip)
         ELSE LET old == s.slots[a.m].regs
                  r == s.slots[a.r].r
                  k == Cardinality({i \in DOMAIN old : old[i] < r})
                  regs == SubSeq(old, 1, k) \o <<r>> \o SubSeq(old, k + 1, Len(old)) IN
              Res(Push(IncRs(s, regs), [k |-> "map", regs |-> regs]), Ok(Len(s.slots) + 1))
    [] op = "remove" ->        \* yields a new map and a handle to the removed region
         IF ~Live(s, a.m, "map") \/ a.i > Len(s.slots[a.m].regs) THEN Res(s, Skip)
         ELSE LET old == s.slots[a.m].regs
                  r == old[a.i]
                  regs == SubSeq(old, 1, a.i - 1) \o SubSeq(old, a.i + 1, Len(old))
                  s1 == IncRs(s, regs \o <<r>>) IN
              Res(Push(Push(s1, [k |-> "map", regs |-> regs]), [k |-> "region", r |-> r]), Ok(Len(s.slots) + 1))
    [] op = "clone" ->         \* Clone of whatever the slot holds
         IF a.s \notin DOMAIN s.slots \/ s.slots[a.s].k = "dead" THEN Res(s, Skip)
         ELSE LET sl == s.slots[a.s]
                  s1 == CASE sl.k = "region" -> [s EXCEPT !.rcR[sl.r] = s.rcR[sl.r] + 1]
                          [] sl.k = "map" -> IncRs(s, sl.regs)
                          [] sl.k = "arc" -> [s EXCEPT !.rcA[sl.a] = s.rcA[sl.a] + 1]
                          [] sl.k = "atomic" -> [s EXCEPT !.rcC[sl.c] = s.rcC[sl.c] + 1] IN
              Res(Push(s1, sl), Ok(Len(s.slots) + 1))
    [] op = "make_atomic" ->   \* GuestMemoryAtomic::new(map.clone())
         IF ~Live(s, a.m, "map") THEN Res(s, Skip)
         ELSE LET regs == s.slots[a.m].regs
                  s1 == NewArc(IncRs(s, regs), regs)
                  s2 == [s1 EXCEPT !.cells = Append(s1.cells, Len(s1.arcs)), !.rcC = Append(s1.rcC, 1)] IN
              Res(Push(s2, [k |-> "atomic", c |-> Len(s2.cells)]), Ok(Len(s.slots) + 1))
    [] op = "snapshot" ->      \* memory(): a guard holding the current Arc
         IF ~Live(s, a.a, "atomic") THEN Res(s, Skip)
         ELSE LET arc == s.cells[s.slots[a.a].c] IN
              Res(Push([s EXCEPT !.rcA[arc] = s.rcA[arc] + 1], [k |-> "arc", a |-> arc]), Ok(Len(s.slots) + 1))
    [] op = "replace" ->       \* lock().replace(map.clone()): the cell drops its reference to the old Arc
         IF ~Live(s, a.a, "atomic") \/ ~Live(s, a.m, "map") THEN Res(s, Skip)
         ELSE LET c == s.slots[a.a].c
                  regs == s.slots[a.m].regs
                  s1 == NewArc(IncRs(s, regs), regs)
                  oldarc == s.cells[c]
                  s2 == [s1 EXCEPT !.cells[c] = Len(s1.arcs)] IN
              Res(DecA(s2, oldarc), Ok(0))
    [] op = "drop" ->
         IF a.s \notin DOMAIN s.slots \/ s.slots[a.s].k = "dead" THEN Res(s, Skip) ELSE Res(DropSlot(s, a.s), Ok(0))
    [] op = "read" ->          \* a read through a live handle: it must still reach mapped memory
         IF a.s \notin DOMAIN s.slots \/ s.slots[a.s].k = "dead" THEN Res(s, Skip)
         ELSE Res(s, [k |-> "ok", regs |-> RegsOfSlot(s, s.slots[a.s])])

Step(op, a) == LET x == Apply(st, op, a) IN
               /\ x.r.k # "skip"
               /\ st' = [x.st EXCEPT !.ops = st.ops + 1]
               /\ last' = [op |-> op, a |-> a, r |-> x.r]

SlotIds == 1 .. MaxSlots
Create == \E k \in Kinds : Len(st.maps) < MaxMaps /\ Step("create", [kind |-> k])
BuildMap == \E ss \in (UNION {[1 .. n -> SlotIds] : n \in 1 .. 2}) : Step("build_map", [slots |-> ss])
Insert == \E m \in SlotIds, r \in SlotIds : Step("insert", [m |-> m, r |-> r])
Remove == \E m \in SlotIds, i \in 1 .. 2 : Step("remove", [m |-> m, i |-> i])
Clone == \E s \in SlotIds : Step("clone", [s |-> s])
MakeAtomic == \E m \in SlotIds : Step("make_atomic", [m |-> m])
Snapshot == \E x \in SlotIds : Step("snapshot", [a |-> x])
Replace == \E x \in SlotIds, m \in SlotIds : Step("replace", [a |-> x, m |-> m])
Drop == \E s \in SlotIds : Step("drop", [s |-> s])
Read == \E s \in SlotIds : Step("read", [s |-> s])

Init == /\ st = [maps |-> <<>>, rcR |-> <<>>, arcs |-> <<>>, rcA |-> <<>>, cells |-> <<>>, rcC |-> <<>>, slots |-> <<>>, ops |-> 0]
        /\ last = [op |-> "init", a |-> [x |-> 0], r |-> Ok(0)]
Next == /\ st.ops < MaxOps
        /\ (Len(st.slots) < MaxSlots \/ TRUE)
        /\ (Create \/ BuildMap \/ Insert \/ Remove \/ Clone \/ MakeAtomic \/ Snapshot \/ Replace \/ Drop \/ Read)
Bounded == Len(st.slots) <= MaxSlots
Spec == Init /\ [][Next]_vars

\* ---- C12 -------------------------------------------------------------------------
\* an owned mapping is mapped exactly while some live owner can reach its region
MappedIffReachable == \A m \in DOMAIN st.maps : st.maps[m].kind = "owned" => (st.maps[m].mapped <=> m \in Reachable(st))
\* ... and it is unmapped exactly once
UnmapOnce == \A m \in DOMAIN st.maps : st.maps[m].unmaps = (IF st.maps[m].kind = "owned" /\ ~st.maps[m].mapped THEN 1 ELSE 0)
\* a mapping provided from outside is never unmapped by the library
RawNeverUnmapped == \A m \in DOMAIN st.maps : st.maps[m].kind = "raw" => st.maps[m].mapped /\ st.maps[m].unmaps = 0
\* a refused creation leaves nothing mapped, ever
FailedNeverMapped == \A m \in DOMAIN st.maps : st.maps[m].kind \in {"failed_build", "failed_wrap"} => ~st.maps[m].mapped /\ m \notin Reachable(st)
\* no live handle points at unmapped memory
NoDangling == \A m \in Reachable(st) : st.maps[m].mapped
View == st
=============================================================================
