------------------------------- MODULE XenCtor -------------------------------
(***************************************************************************)
(* Region construction (C15): which requests are refused and what an       *)
(* accepted request yields.  Two decision functions, written in the order  *)
(* the code performs its checks so that the reported error is determined:  *)
(*   UnixBuild(r)  MmapRegionBuilder::build / build_raw (standard build)   *)
(*   XenBuild(r)   MmapRegion::from_range (Xen build)                      *)
(* and, independently, the property-level reading:                         *)
(*   Unsafe(r)     the request is unsafe or inconsistent => it must fail   *)
(*   ValidXen(f)   the table of acceptable mapping-type flag words         *)
(* TLC checks, over every request of the finite universe, that the         *)
(* decisions refuse exactly the unsafe requests (plus what the kernel      *)
(* itself refuses: empty or misaligned-offset mappings) and that the       *)
(* code-shaped flag predicate equals the table.                            *)
(***************************************************************************)
EXTENDS Word, Sequences, TLC

PG == 4096
Ok(attrs) == [k |-> "ok"] @@ attrs
Err(e) == [k |-> "err", e |-> e]

\* ---- standard build ----------------------------------------------------------
\* r = [kind \in {"anon","file","raw"}, size, flen, foff, fixed, misalign]
UnsafeUnix(r) == \/ (r.kind = "raw" /\ r.misalign # 0)
                 \/ (r.kind # "raw" /\ r.fixed)
                 \/ (r.kind = "file" /\ (r.foff + r.size >= WORD \/ r.flen < r.foff + r.size))
KernelRefusesUnix(r) == r.kind # "raw" /\ (r.size = 0 \/ (r.kind = "file" /\ r.foff % PG # 0))

UnixBuild(r) ==
    IF r.kind = "raw" THEN (IF r.misalign # 0 THEN Err("InvalidPointer") ELSE Ok([size |-> r.size, owned |-> FALSE]))
    ELSE IF r.fixed THEN Err("MapFixed")
    ELSE IF r.kind = "file" /\ CheckedAdd(r.foff, r.size) = NONE THEN Err("InvalidOffsetLength")
    ELSE IF r.kind = "file" /\ r.flen < r.foff + r.size THEN Err("MappingPastEof")
    ELSE IF r.size = 0 \/ (r.kind = "file" /\ r.foff % PG # 0) THEN Err("Mmap")
    ELSE Ok([size |-> r.size, owned |-> TRUE])

\* every refusal that applies to a request; the code reports the first one its checks meet, another order of the same
\* checks is as good (the property names the refusals, not their precedence)
UnixErrSet(r) ==
    IF r.kind = "raw" THEN (IF r.misalign # 0 THEN {"InvalidPointer"} ELSE {})
    ELSE LET ovf == r.kind = "file" /\ CheckedAdd(r.foff, r.size) = NONE IN
         (IF r.fixed THEN {"MapFixed"} ELSE {})
         \cup (IF ovf THEN {"InvalidOffsetLength"} ELSE {})
         \cup (IF r.kind = "file" /\ ~ovf /\ r.flen < r.foff + r.size THEN {"MappingPastEof"} ELSE {})
         \cup (IF r.size = 0 \/ (r.kind = "file" /\ r.foff % PG # 0) THEN {"Mmap"} ELSE {})

\* ---- Xen build ------------------------------------------------------------------
\* mapping-type flag word bits: FOREIGN = 1, GRANT = 2, NO_ADVANCE_MAP = 8; anything else is unknown
Bit(f, b) == (f \div b) % 2 = 1
Known(f) == f < 16 /\ ~Bit(f, 4)
\* the table: UNIX, FOREIGN, GRANT, GRANT | NO_ADVANCE_MAP
ValidXen(f) == f \in {0, 1, 2, 10}
\* MmapXenFlags::is_valid as written
ImplValid(f) == IF Bit(f, 2) THEN ~Bit(f, 1)
                ELSE IF Bit(f, 1) \/ f = 0 THEN ~Bit(f, 8)
                ELSE FALSE

\* r = [mflags, file (bool), size, flen, foff, fixed, fail \in {"", "map", "foreign"}]
UnsafeXen(r) == \/ r.fixed
                \/ ~Known(r.mflags) \/ ~ValidXen(r.mflags)
                \/ (r.mflags # 0 /\ (~r.file \/ r.foff # 0))
                \/ (r.mflags = 0 /\ r.file /\ (r.foff + r.size >= WORD \/ r.flen < r.foff + r.size))
XenBuild(r) ==
    IF r.fixed THEN Err("MapFixed")
    ELSE IF ~Known(r.mflags) \/ ~ImplValid(r.mflags) THEN Err("MmapFlags")
    ELSE IF r.mflags # 0 THEN      \* foreign / grant: a backing file at offset 0 is required
         (IF ~r.file THEN Err("InvalidFileOffset")
          ELSE IF r.foff # 0 THEN Err("InvalidOffsetLength")
          ELSE IF (r.mflags = 1 /\ r.fail = "foreign") \/ (r.mflags = 2 /\ r.fail = "map") THEN Err("Mmap")
          ELSE IF r.size = 0 /\ r.mflags # 10 THEN Err("Mmap")
          ELSE Ok([size |-> r.size, xflags |-> r.mflags]))
    ELSE IF r.file /\ CheckedAdd(r.foff, r.size) = NONE THEN Err("InvalidOffsetLength")
    ELSE IF r.file /\ r.flen < r.foff + r.size THEN Err("MappingPastEof")
    ELSE IF r.size = 0 \/ (r.file /\ r.foff % PG # 0) THEN Err("Mmap")
    ELSE Ok([size |-> r.size, xflags |-> 0])

XenErrSet(r) ==
    LET ovf == r.file /\ CheckedAdd(r.foff, r.size) = NONE
        badflags == ~Known(r.mflags) \/ ~ImplValid(r.mflags) IN
    (IF r.fixed THEN {"MapFixed"} ELSE {})
    \cup (IF badflags THEN {"MmapFlags"} ELSE {})
    \cup (IF ~badflags /\ r.mflags # 0
          THEN (IF ~r.file THEN {"InvalidFileOffset"} ELSE {})
               \cup (IF r.file /\ r.foff # 0 THEN {"InvalidOffsetLength"} ELSE {})
               \cup (IF (r.mflags = 1 /\ r.fail = "foreign") \/ (r.mflags = 2 /\ r.fail = "map") \/ (r.size = 0 /\ r.mflags # 10) THEN {"Mmap"} ELSE {})
          ELSE {})
    \cup (IF ~badflags /\ r.mflags = 0
          THEN (IF ovf THEN {"InvalidOffsetLength"} ELSE {})
               \cup (IF r.file /\ ~ovf /\ r.flen < r.foff + r.size THEN {"MappingPastEof"} ELSE {})
               \cup (IF r.size = 0 \/ (r.file /\ r.foff % PG # 0) THEN {"Mmap"} ELSE {})
          ELSE {})

\* ---- giving a mapping its guest range (both builds) ---------------------------------------
\* GuestRegionMmap::new(mapping, base): refused when base + size lies beyond the address space - and then the mapping,
\* handed over by value, goes away with the refusal.  A range ending exactly at 2^64 (its last byte is the last address)
\* is refused by the code; the property's wording ("beyond the address space") does not settle that case: no verdict.
WrapDecision(size, base) == IF base + size > WORD THEN "err" ELSE IF base + size = WORD THEN "any" ELSE "ok"

\* ---- the finite universe ------------------------------------------------------------
CONSTANTS Sizes, FLens, FOffs
VARIABLE req
UnixReqs == [kind : {"anon", "file", "raw"}, size : Sizes, flen : FLens, foff : FOffs, fixed : BOOLEAN, misalign : {0, 1, 2048}]
XenReqs == [mflags : 0 .. 31, file : BOOLEAN, size : Sizes, flen : FLens, foff : FOffs, fixed : BOOLEAN, fail : {"", "map", "foreign"}]
Init == req \in [b : {"unix"}, r : UnixReqs] \cup [b : {"xen"}, r : XenReqs]
Next == UNCHANGED req
Spec == Init /\ [][Next]_req

\* accepts exactly the safe requests (that the kernel / device does not itself refuse)
ExactlySafe ==
    IF req.b = "unix"
    THEN /\ UnsafeUnix(req.r) => UnixBuild(req.r).k = "err"
         /\ (~UnsafeUnix(req.r) /\ ~KernelRefusesUnix(req.r)) => UnixBuild(req.r).k = "ok"
    ELSE /\ UnsafeXen(req.r) => XenBuild(req.r).k = "err"
         /\ (~UnsafeXen(req.r) /\ req.r.fail = "" /\ req.r.size # 0 /\ (req.r.mflags = 0 => req.r.foff % PG = 0))
               => XenBuild(req.r).k = "ok"
\* the code-shaped decisions pick their refusal from the applicable ones, and accept exactly when none applies
ErrInSet == IF req.b = "unix"
            THEN LET x == UnixBuild(req.r) IN (x.k = "ok" <=> UnixErrSet(req.r) = {}) /\ (x.k = "err" => x.e \in UnixErrSet(req.r))
            ELSE LET x == XenBuild(req.r) IN (x.k = "ok" <=> XenErrSet(req.r) = {}) /\ (x.k = "err" => x.e \in XenErrSet(req.r))
FlagTable == \A f \in 0 .. 31 : (Known(f) /\ ImplValid(f)) <=> ValidXen(f)
BuildsWhatWasAsked == (req.b = "unix" /\ UnixBuild(req.r).k = "ok") => UnixBuild(req.r).size = req.r.size
=============================================================================
