------------------------------ MODULE PageSet ------------------------------
(***************************************************************************)
(* The meaning of "the pages a byte range overlaps" and the transcription  *)
(* of AtomicBitmap::set_reset_addr_range's arithmetic.  Constant level;    *)
(* shared by Bitmap (C09) and by every module that tracks dirty pages      *)
(* (C05, C16).                                                             *)
(***************************************************************************)
EXTENDS Word

\* pages of 0..np-1 that contain at least one byte of [s, s+l) below WORD
Pages(np, ps, s, l) ==
    IF l = 0 THEN {}
    ELSE LET e == Min(s + (l - 1), WORD - 1)
         IN  {p \in 0 .. np - 1 : p * ps <= e /\ p * ps + (ps - 1) >= s}

\* set_reset_addr_range as written: first_bit ..= last_bit, saturating_add, break at size
ImplRange(np, ps, s, l) ==
    IF l = 0 THEN {}
    ELSE LET first == s \div ps
             lastb == SatAdd(s, l - 1) \div ps
         IN  {n \in first .. Min(lastb, np - 1) : TRUE}
=============================================================================
