----------------------------- MODULE Trace_Endian -----------------------------
(* Records from the eight real wrapper types: bytes of the wrapper, to_native, comparisons in both   *)
(* directions, size/alignment, bytes found in a VolatileSlice after write_obj and the value read back *)
EXTENDS Endian, Json, IOUtils
CONSTANT Host
Rec == ndJsonDeserialize(IOEnv.TRACE)
VARIABLE l
Judge(ok, tag, exp) == IF ok THEN TRUE ELSE PrintT(<<"MISMATCH", l, tag, ToJson(exp)>>)

Order(ty) == IF ty \in {"Le16", "Le32", "Le64", "LeSize"} THEN "le" ELSE "be"
Bytes(ty) == CASE ty \in {"Le16", "Be16"} -> 2 [] ty \in {"Le32", "Be32"} -> 4 [] OTHER -> 8

TraceInit == l = 1
TraceNext ==
    /\ l <= Len(Rec)
    /\ LET e == Rec[l]
           o == Order(e.a.ty)
           v == e.a.v
           x == e.a.w IN
       Judge(/\ Len(v) = Bytes(e.a.ty)
             /\ e.r.mem = Declared(o, v)                 \* in-memory bytes are the declared order
             /\ e.r.vb = Declared(o, v)                  \* the volatile view of the object (as_bytes) spans exactly those bytes
             /\ e.r.native = v                           \* round trip
             /\ e.r.eq_self /\ e.r.eq_self_rev           \* equal to the value it represents, both directions
             /\ (e.r.eq_other <=> v = x) /\ (e.r.eq_other_rev <=> v = x)
             /\ ~e.r.ne_self /\ ~e.r.ne_self_rev         \* `!=` is the negation of `==`, both directions
             /\ (e.r.ne_other <=> v # x) /\ (e.r.ne_other_rev <=> v # x)
             /\ e.r.into = v                            \* From<wrapper> for native
             /\ e.r.size = Bytes(e.a.ty) /\ e.r.align = Bytes(e.a.ty)
             /\ e.r.vs = Declared(o, v)                  \* wire format in guest memory
             /\ e.r.back = v
             /\ e.r.gm = Declared(o, v)                 \* stored across region boundaries of guest memory: still the wire format
             /\ e.r.arr = <<85>> \o Declared(o, v) \o Declared(o, v) \o Declared(o, v) \o <<85>>   \* a table moved inside guest memory
             /\ e.r.cf = Declared(o, v) \o Declared(o, v) \o Declared(o, v)      \* element-wise copy_from / copy_to on a slice at an odd address
             /\ e.r.mem = WMem(o, v, Host),              \* and this is what the macro-shaped model computes
             "endian", [mem |-> Declared(o, v)])
    /\ l' = l + 1
TraceSpec == TraceInit /\ [][TraceNext]_l
Accepted ==
    LET d == TLCGet("stats").diameter IN
    IF d - 1 = Len(Rec) THEN TRUE ELSE Print(<<"UNMATCHED", d, ToJson(Rec[d])>>, FALSE)
=============================================================================
