------------------------------ MODULE XenGrant ------------------------------
(***************************************************************************)
(* Memory that is mapped on demand (Xen grant regions created with         *)
(* NO_ADVANCE_MAP) - C17, Xen build.  The emulated grant device logs       *)
(* map(index, pages) / unmap(index, pages); a grant index is the guest     *)
(* address of the first mapped page, and the backing file is guest RAM     *)
(* (file offset = guest address).  For one library call:                   *)
(*   Covered   the bytes it touches lie inside a window mapped during the  *)
(*             call (the code maps from the access offset to the end of    *)
(*             the slice it holds - more than needed is fine)              *)
(*   Released  every window mapped during the call is unmapped before it   *)
(*             returns, with the same index and page count                 *)
(*   Advance   regions mapped in advance (grant, foreign, unix) never      *)
(*             talk to the device during an access                         *)
(* plus the functional result: the right count, the bytes land in / come   *)
(* from guest RAM at guest address = file offset.                          *)
(* TLC checks the window arithmetic of MmapXenSlice::new_with (WindowImpl) *)
(* against Covered for every offset / length of a small page universe.     *)
(***************************************************************************)
EXTENDS Naturals, Integers, Sequences, FiniteSets, TLC

Min(a, b) == IF a <= b THEN a ELSE b

\* ---- the window the code maps for an access of len bytes at region offset off (page size P) ----
\* MmapXenSlice::new_with: page_base = off / P * P; size = (off - page_base) + len; pages = ceil(size / P)
WindowImpl(off, len, P) == LET pb == (off \div P) * P
                               sz == (off - pb) + len
                           IN  [start |-> pb, pages |-> (sz + P - 1) \div P]
Covers(win, off, len, P) == win.start <= off /\ off + len <= win.start + win.pages * P

\* ---- what a call touches: [k, o, n, w (write), o2 (second range, -1 if none)] in region offsets -------
T(k, o, n, w) == [k |-> k, o |-> o, n |-> n, w |-> w, o2 |-> -1]
AnyT == [k |-> "any", o |-> 0, n |-> 0, w |-> FALSE, o2 |-> -1]

Touch(op, a, base, size) ==
  LET ao == IF "addr" \in DOMAIN a THEN a.addr - base ELSE 0
      inreg == "addr" \in DOMAIN a /\ a.addr >= base /\ a.addr - base < size IN
  CASE op = "g_write" -> IF Len(a.buf) = 0 THEN T("ok", 0, 0, TRUE) ELSE IF ~inreg THEN T("err", 0, 0, FALSE)
                         ELSE T("ok", ao, Min(Len(a.buf), size - ao), TRUE)
    [] op = "g_read" -> IF a.bl = 0 THEN T("ok", 0, 0, FALSE) ELSE IF ~inreg THEN T("err", 0, 0, FALSE)
                        ELSE T("ok", ao, Min(a.bl, size - ao), FALSE)
    [] op = "g_write_obj" -> IF Len(a.buf) = 0 THEN T("ok", 0, 0, TRUE) ELSE IF inreg /\ ao + Len(a.buf) <= size THEN T("ok", ao, Len(a.buf), TRUE) ELSE AnyT
    [] op = "g_read_obj" -> IF a.esz = 0 THEN T("ok", 0, 0, FALSE) ELSE IF inreg /\ ao + a.esz <= size THEN T("ok", ao, a.esz, FALSE) ELSE AnyT
    [] op \in {"g_read_from", "g_read_from_fd"} -> IF ~inreg THEN AnyT ELSE T("ok", ao, Min(Min(a.count, Len(a.src)), size - ao), TRUE)
    [] op \in {"g_write_to", "g_write_to_fd"} -> IF ~inreg THEN AnyT ELSE T("ok", ao, Min(a.count, size - ao), FALSE)
    [] op = "g_store" -> IF inreg /\ ao + Len(a.buf) <= size /\ ao % Len(a.buf) = 0 THEN T("ok", ao, Len(a.buf), TRUE) ELSE T("err", 0, 0, FALSE)
    [] op = "g_load" -> IF inreg /\ ao + a.esz <= size /\ ao % a.esz = 0 THEN T("ok", ao, a.esz, FALSE) ELSE T("err", 0, 0, FALSE)
    [] op = "s_ref_store" -> IF a.off + Len(a.buf) <= size THEN T("ok", a.off, Len(a.buf), TRUE) ELSE T("err", 0, 0, FALSE)
    [] op = "s_ref_load" -> IF a.off + a.esz <= size THEN T("ok", a.off, a.esz, FALSE) ELSE T("err", 0, 0, FALSE)
    [] op = "s_arr_copy_from" -> IF a.off + a.n * a.esz <= size THEN T("ok", a.off, Min(Len(a.buf) \div a.esz, a.n) * a.esz, TRUE) ELSE T("err", 0, 0, FALSE)
    [] op = "s_arr_copy_to" -> IF a.off + a.n * a.esz <= size THEN T("ok", a.off, a.n * a.esz, FALSE) ELSE T("err", 0, 0, FALSE)
    [] op = "s_arr_store" -> IF a.off + a.n * a.esz <= size /\ a.i < a.n THEN T("ok", a.off + a.i * a.esz, a.esz, TRUE) ELSE AnyT
    [] op = "s_arr_load" -> IF a.off + a.n * a.esz <= size /\ a.i < a.n THEN T("ok", a.off + a.i * a.esz, a.esz, FALSE) ELSE AnyT
    [] op = "s_copy_from_u8" -> IF a.off + a.len <= size THEN T("ok", a.off, Min(Len(a.buf), a.len), TRUE) ELSE T("err", 0, 0, FALSE)
    [] op = "s_copy_to_u8" -> IF a.off + a.len <= size THEN T("ok", a.off, Min(a.bl, a.len), FALSE) ELSE T("err", 0, 0, FALSE)
    [] op = "ptr_guard" -> IF a.off + a.len <= size THEN T("ok", a.off, a.len, FALSE) ELSE T("err", 0, 0, FALSE)
    [] op = "s_get_atomic_ref" -> IF a.off + a.esz <= size /\ a.off % a.esz = 0 THEN T("ok", a.off, a.esz, FALSE) ELSE T("err", 0, 0, FALSE)
    [] op \in {"s_aligned_as_ref", "s_aligned_as_mut"} -> IF a.off + a.esz <= size /\ a.off % a.esz = 0 THEN T("ok", a.off, a.esz, FALSE) ELSE T("err", 0, 0, FALSE)
    [] op \in {"s_copy_to_volatile_slice", "s_arr_copy_to_volatile_slice"} ->
         [k |-> "ok", o |-> a.off, n |-> IF op = "s_arr_copy_to_volatile_slice" THEN (a.len \div 2) * 2 ELSE a.len, w |-> FALSE, o2 |-> a.to]

\* ---- small-universe check of the window arithmetic -------------------------------------
CONSTANTS MaxOff, MaxLen, PS
VARIABLE x
Init == x \in [off : 0 .. MaxOff, len : 1 .. MaxLen, p : PS]
Next == UNCHANGED x
Spec == Init /\ [][Next]_x
WindowCovers == Covers(WindowImpl(x.off, x.len, x.p), x.off, x.len, x.p)
WindowTight  == LET w == WindowImpl(x.off, x.len, x.p) IN          \* no page that the access does not touch
                   w.start + x.p > x.off /\ w.start + (w.pages - 1) * x.p < x.off + x.len
=============================================================================
