------------------------------- MODULE Limbs -------------------------------
(***************************************************************************)
(* Exact fixed-width unsigned arithmetic on little-endian limb sequences   *)
(* (LK limbs of base LB, LB a power of two).  With LB = 65536, LK = 4 this  *)
(* is 64-bit arithmetic on numbers TLC's 32-bit integers cannot hold; it   *)
(* is used only to judge RECORDED address arithmetic (C19).  MC_AddrArith  *)
(* checks every operator against plain integer arithmetic for small bases. *)
(***************************************************************************)
EXTENDS Naturals, Integers, Sequences, Bitwise

CONSTANTS LB, LK

Idx == 1 .. LK
LZero == [i \in Idx |-> 0]
LOne  == [i \in Idx |-> IF i = 1 THEN 1 ELSE 0]
LMax  == [i \in Idx |-> LB - 1]

\* <<sum limbs, carry out>>
LAdd(x, y) ==
    LET C[i \in 0 .. LK] == IF i = 0 THEN 0 ELSE (x[i] + y[i] + C[i - 1]) \div LB
    IN  <<[i \in Idx |-> (x[i] + y[i] + C[i - 1]) % LB], C[LK] = 1>>
\* <<difference limbs (wrapped), borrow out>>
LSub(x, y) ==
    LET Bw[i \in 0 .. LK] == IF i = 0 THEN 0 ELSE IF x[i] - y[i] - Bw[i - 1] < 0 THEN 1 ELSE 0
    IN  <<[i \in Idx |-> (x[i] - y[i] - Bw[i - 1] + LB) % LB], Bw[LK] = 1>>
LLt(x, y) == \E i \in Idx : x[i] < y[i] /\ \A j \in Idx : j > i => x[j] = y[j]
LAnd(x, y) == [i \in Idx |-> x[i] & y[i]]
LOr(x, y)  == [i \in Idx |-> x[i] | y[i]]
LNot(x)    == [i \in Idx |-> (LB - 1) - x[i]]
LIsPow2(p) == p # LZero /\ LAnd(p, LSub(p, LOne)[1]) = LZero
=============================================================================
