\* 2 readers, 2 updaters with 2 replacements each: every interleaving
SPECIFICATION Spec
CONSTANTS
  Readers = {1, 2}
  Updaters = {3, 4}
  MaxUpd = 2
  ReleaseFirst = TRUE
  NoMutex = FALSE
INVARIANTS SnapshotWhole NoLostUpdate
PROPERTIES SnapshotStable Monotone
CHECK_DEADLOCK FALSE
