SPECIFICATION TraceSpec
CONSTANTS
  Cands <- CandsMC
  P = 2
  MaxRegs = 1000
  MaxHandles = 1000
  MaxCells = 1000
  MaxOps = 100000
  Addrs <- AddrsSim
  Lens = {1, 3, 6}
  IdSeqs <- IdSeqsMC
  Warm = 0
  Variant = "code"
  Check = {"snapshot", "snapdata"}
POSTCONDITION Accepted
CHECK_DEADLOCK FALSE
