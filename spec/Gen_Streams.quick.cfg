\* test generation: every stream class, lengths on both sides of the 8-byte threshold, call sequences of 3
SPECIFICATION Spec
CONSTANTS
  WORD = 1024
  Streams0 <- StreamsMC
  BufLens = {0, 1, 2, 8, 9, 10}
  PosVals = {0, 1, 9, 10, 11, 20}
ACTION_CONSTRAINT Emit
CONSTRAINT EmitInit
CONSTRAINT Depth4
VIEW View
CHECK_DEADLOCK FALSE
