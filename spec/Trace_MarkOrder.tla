--------------------------- MODULE Trace_MarkOrder ---------------------------
(* Schedules of the real code (executor `mord`): a writer performing tracked writes races with a migrator that    *)
(* fetch-and-clears the bitmap and sends the pages it harvested.  Judged per schedule with the diff-driven oracle   *)
(* of C05 in its concurrent reading (MarkOrder.tla, Converges): when everything has returned, every byte of guest    *)
(* memory that differs from the image the migrator has sent lies in a page the bitmap still reports dirty.           *)
EXTENDS Naturals, Sequences, FiniteSets, TLC, Json, IOUtils
Rec == ndJsonDeserialize(IOEnv.TRACE)
VARIABLES l, sent, ps
tvars == <<l, sent, ps>>
Judge(ok, tag, exp) == IF ok THEN TRUE ELSE PrintT(<<"MISMATCH", l, tag, ToJson(exp)>>)
SetOf(q) == {q[i] : i \in 1 .. Len(q)}

\* the image after a round sent `pages` with `data`
RECURSIVE Send(_, _, _, _, _)
Send(img, pages, data, p, i) ==
    IF i > Len(pages) THEN img
    ELSE Send([o \in 1 .. Len(img) |-> IF (o - 1) \div p = pages[i] THEN data[i][((o - 1) % p) + 1] ELSE img[o]], pages, data, p, i + 1)

TraceInit == l = 1 /\ sent = <<>> /\ ps = 1
TraceNext ==
    /\ l <= Len(Rec)
    /\ LET e == Rec[l] IN
       CASE e.op = "init" -> /\ sent' = [o \in 1 .. e.a.pages * e.a.psize |-> 0]
                             /\ ps' = e.a.psize
         [] e.op = "step" -> /\ sent' = IF "end" \in DOMAIN e.a /\ e.a["end"].k = "round"
                                        THEN Send(sent, e.a["end"].pages, e.a["end"].data, ps, 1) ELSE sent
                             /\ Judge("end" \in DOMAIN e.a => e.a["end"].k \in {"unit", "round"}, "crash", [r |-> "an operation failed or panicked"])
                             /\ UNCHANGED ps
         [] e.op = "final" -> /\ Judge(/\ Len(e.a.mem) = Len(sent)
                                       /\ \A o \in 1 .. Len(sent) : e.a.mem[o] # sent[o] => ((o - 1) \div ps) \in SetOf(e.a.bits),
                                       "lost_update",
                                       [clean_but_stale |-> {(o - 1) \div ps : o \in {x \in 1 .. Len(sent) : e.a.mem[x] # sent[x]}} \ SetOf(e.a.bits)])
                              /\ UNCHANGED <<sent, ps>>
         [] OTHER -> UNCHANGED <<sent, ps>>
    /\ l' = l + 1
TraceSpec == TraceInit /\ [][TraceNext]_tvars
Accepted ==
    LET d == TLCGet("stats").diameter IN
    IF d - 1 = Len(Rec) THEN TRUE ELSE Print(<<"UNMATCHED", d, ToJson(Rec[d])>>, FALSE)
=============================================================================
