---------------------------- MODULE Trace_Volatile ----------------------------
(***************************************************************************)
(* Trace validation for Volatile: every event recorded from the real       *)
(* VolatileSlice / MmapRegion / VolatileRef / VolatileArrayRef code must   *)
(* be the step Volatile!Apply allows from the implementation's own logged  *)
(* pre-state.  `Check` selects the comparisons that belong to the property *)
(* being decided, so that one recorded trace serves C01, C04, C05, C16,    *)
(* C17, C18 and C07 without one property's defect raising another's alarm. *)
(***************************************************************************)
EXTENDS Volatile, Json, IOUtils

CONSTANT Check   \* subset of {"extent","data","dirty_sound","dirty_precise","guard","zero","nopanic","variant"}

Rec == ndJsonDeserialize(IOEnv.TRACE)

VARIABLE l
tvars == <<st, last, l>>

ToSet(seq) == {seq[i] : i \in DOMAIN seq}

DerivOps == {"subslice", "get_slice", "offset", "split_at", "get_ref", "get_array_ref", "to_slice", "ref_at",
             "array_from_slice", "as_volatile_slice", "root", "compute_end_offset", "len",
             "get_atomic_ref", "aligned_as_ref", "aligned_as_mut", "bv_from_slice", "bv_from_mut_slice"}
GuardOps == {"ptr_guard"}
WriteOps == {"write", "write_slice", "write_obj", "store", "copy_from", "copy_to_volatile_slice",
             "arr_copy_to_volatile_slice", "read_volatile_from", "read_exact_volatile_from", "read_cursor", "read_exact_cursor",
             "read_from_bad_fd", "ref_store", "arr_store", "arr_copy_from"}

CurOf(o) == [kind |-> o.kind, off |-> o.off, len |-> o.len, esz |-> o.esz, n |-> o.n]

\* specification state rebuilt from the logged post-state of event e (N, B, P, root never change).  A logged accessor
\* that does not lie inside its container (an `extent` mismatch has been reported for it) is not adopted: the
\* specification continues with its own accessor, so that its operators stay within their domains.
SaneCur(s, o) == o.off >= 0 /\ o.len >= 0 /\ o.n >= 0 /\ o.off + o.len <= s.N
Logged(s, e, fallback) == [s EXCEPT !.mem = IF Len(e.s.mem) = s.N THEN e.s.mem ELSE @,
                                    !.dirty = ToSet(e.s.dirty),
                                    !.cur = IF SaneCur(s, e.s.cur) THEN CurOf(e.s.cur) ELSE fallback]

\* zero-sized element types, empty buffers: the domain of C18
IsZst(e) == \/ ("esz" \in DOMAIN e.a /\ e.a.esz = 0)
            \/ (e.op \in {"arr_copy_to", "arr_copy_from", "arr_load", "arr_store", "ref_load", "ref_store",
                          "arr_copy_to_volatile_slice", "to_slice", "ref_at", "ptr_guard", "len"} /\ st.cur.esz = 0)
            \/ (e.op = "write_obj" /\ Len(e.a.buf) = 0)
ZeroLen(e) == \/ IsZst(e)
              \/ (e.op \in {"write", "write_slice"} /\ Len(e.a.buf) = 0)
              \/ (e.op \in {"read", "read_slice"} /\ e.a.bl = 0)
              \/ (e.op \in {"read_volatile_from", "read_exact_volatile_from", "read_cursor", "read_exact_cursor", "write_volatile_to",
                            "write_all_volatile_to", "write_to_cursor", "write_all_to_cursor"} /\ e.a.count = 0 /\ e.a.addr <= st.cur.len)

\* every field the specification's result has (except the error variant) is logged with the same value
ResEq(lr, xr) == /\ lr.k = xr.k
                 /\ \A f \in DOMAIN xr \ {"e", "k"} : f \in DOMAIN lr /\ lr[f] = xr[f]

Judge(ok, tag, exp) == IF ok THEN TRUE ELSE PrintT(<<"MISMATCH", l, tag, ToJson(exp)>>)
Drift(ok, tag, exp) == IF ok THEN TRUE ELSE PrintT(<<"DRIFT", l, tag, ToJson(exp)>>)

Changed(m0, m1) == {i \in 1 .. Len(m0) : m0[i] # m1[i]}

TraceInit == /\ st = InitState(<<"slice", 0, 0, 1>>)
             /\ last = [op |-> "none", a |-> [x |-> 0], r |-> OkU]
             /\ l = 1

CheckEvent(e, x) ==
    LET plain == ~IsZst(e)              \* zero-sized element types belong to C18/C07 only
        ls == e.s
    IN
    \* --- C01: containment and alignment ---
    /\ Judge(("extent" \in Check /\ plain) =>
                /\ (e.op \in DerivOps => ResEq(e.r, x.r))
                /\ CurOf(ls.cur) = x.st.cur
                /\ ls.cur.off + ls.cur.len <= st.N
                /\ ls.canary,
             "extent", [res |-> x.r, cur |-> x.st.cur])
    \* --- C04: exactly the named bytes move, counts are right ---
    /\ Judge(("data" \in Check /\ plain /\ e.op \notin DerivOps /\ e.op \notin GuardOps) =>
                /\ ResEq(e.r, x.r)
                /\ ls.mem = x.st.mem
                /\ ls.canary,
             "data", [res |-> x.r, mem |-> x.st.mem])
    \* --- C05: whatever changed is dirty afterwards, and the operation's own range is ---
    /\ Judge(("dirty_sound" \in Check /\ plain) =>
                /\ x.st.dirty \subseteq ToSet(ls.dirty)
                /\ \A i \in Changed(st.mem, ls.mem) : ((i - 1) \div st.P) \in ToSet(ls.dirty),
             "dirty_sound", [dirty |-> x.st.dirty])
    \* --- C16: nothing else is ---
    /\ Judge(("dirty_precise" \in Check /\ plain) => ToSet(ls.dirty) \subseteq x.st.dirty,
             "dirty_precise", [dirty |-> x.st.dirty])
    \* --- C17: the guard spans the accessor ---
    /\ Judge(("guard" \in Check /\ plain /\ ls.cur.kind # "region") =>
                /\ ls.cur.glen = ls.cur.len /\ ls.cur.gmlen = ls.cur.len /\ ls.cur.gmoff = ls.cur.off
                /\ (e.op = "ptr_guard" => ResEq(e.r, x.r)),
             "guard", [cur |-> x.st.cur])
    \* --- C18: zero-length accesses succeed and change nothing ---
    /\ Judge(("zero" \in Check /\ ZeroLen(e) /\ x.r.k = "ok") =>
                /\ e.r.k = "ok"
                /\ ls.mem = st.mem /\ ToSet(ls.dirty) = st.dirty,
             "zero", [res |-> x.r])
    \* --- C07: no panic except the documented ones ---
    /\ Judge("nopanic" \in Check => (e.r.k = "panic" => x.r.k = "panic"), "nopanic", [res |-> x.r])
    \* --- error variants: informational ---
    /\ Drift(("variant" \in Check /\ x.r.k = "err" /\ e.r.k = "err") => e.r.e = x.r.e, "variant", [res |-> x.r])

TraceNext ==
    /\ l <= Len(Rec)
    /\ LET e == Rec[l] IN
         IF e.op = "init"
         THEN LET s0 == InitState(<<IF e.a.root = "region" THEN "region" ELSE "slice", e.a.n, e.a.b, e.a.p>>) IN
              /\ Judge("extent" \in Check => CurOf(e.s.cur) = s0.cur /\ e.s.canary, "extent", [cur |-> s0.cur])
              /\ Judge("dirty_precise" \in Check => e.s.dirty = <<>>, "dirty_precise", [dirty |-> {}])
              /\ st' = Logged(s0, e, s0.cur)
              /\ last' = [op |-> "init", a |-> e.a, r |-> OkU]
         ELSE IF e.r.k = "skip"
         THEN /\ Judge(Apply(st, e.op, e.a).r.k = "skip", "skip", [res |-> Apply(st, e.op, e.a).r])
              /\ UNCHANGED <<st, last>>
         ELSE LET x == Apply(st, e.op, e.a) IN
              /\ Judge(x.r.k # "skip", "skip", [res |-> x.r])
              /\ (x.r.k # "skip" => CheckEvent(e, x))
              /\ st' = Logged(st, e, x.st.cur)
              /\ last' = [op |-> e.op, a |-> e.a, r |-> x.r]
    /\ l' = l + 1

TraceSpec == TraceInit /\ [][TraceNext]_tvars

Accepted ==
    LET d == TLCGet("stats").diameter IN
    IF d - 1 = Len(Rec) THEN TRUE
    ELSE Print(<<"UNMATCHED", d, ToJson(Rec[d])>>, FALSE)
=============================================================================
