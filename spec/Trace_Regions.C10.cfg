SPECIFICATION TraceSpec
CONSTANTS
  WORD = 1073741824
  StartVals = {}
  LenVals = {}
  MaxPool = 0
  MaxMaps = 0
  MaxOps = 0
  IdSeqs = {}
  TagVals = {}
POSTCONDITION Accepted
CHECK_DEADLOCK FALSE
