------------------------------ MODULE GuestMem ------------------------------
(***************************************************************************)
(* Guest physical memory as ONE FLAT SPARSE BYTE ARRAY over the address    *)
(* space 0 .. WORD-1 (WORD models 2^64), built from a sorted sequence of   *)
(* disjoint regions.  Queries (C02) are read off the interval set; data    *)
(* accesses (C03) move the longest run of consecutively mapped addresses;  *)
(* dirty pages are kept per region at the region's own offsets (C05/C16).  *)
(*                                                                         *)
(* State `st`: [be, P, regs] where regs is a sequence of                   *)
(*    [s (guest start), n (length), mem (bytes), dirty (page set)]         *)
(* be = "mmap" (GuestMemoryMmap<AtomicBitmap>) or "custom" (a backend in   *)
(* the harness that implements only the required trait methods and         *)
(* inherits every provided default method; no dirty tracking).             *)
(*                                                                         *)
(* Impl-shaped parts, checked against the abstract definitions by TLC for  *)
(* every layout / address / count of the small universe (MC_GuestMem):     *)
(*   ImplFind    the binary search of GuestMemoryMmap::find_region         *)
(*   TA          the loop of GuestMemory::try_access                       *)
(***************************************************************************)
EXTENDS PageSet, ScriptIO, FiniteSets, Sequences, TLC

CONSTANTS
    Layouts,      \* set of sequences of <<start, len>>
    Backends,     \* subset of {"mmap", "custom"}
    PVals,        \* bitmap page sizes
    AddrVals, CntVals, BufLens, EszVals, AtomVals,
    Scripts,      \* scripts of per-call stream behaviours tried by the scripted-stream actions (C14)
    WrapArm       \* TRUE: try_access as originally written (continues at address 0 after wrapping)

VARIABLES st, last
vars == <<st, last>>

OkU       == [k |-> "ok"]
OkN(n)    == [k |-> "ok", n |-> n]
OkD(n, d) == [k |-> "ok", n |-> n, data |-> d]
OkV(v)    == [k |-> "ok", v |-> v]
None      == [k |-> "none"]
Err(e)    == [k |-> "err", e |-> e]
AnyRes       == [k |-> "any"]              \* the property text admits either answer (DESIGN.md section 4)
Res(s, r) == [st |-> s, r |-> r]

\* ---- the interval set -------------------------------------------------------
NReg(regs) == Len(regs)
InReg(r, a) == a >= r.s /\ a - r.s < r.n
Owner(regs, a) == IF \E i \in 1 .. Len(regs) : InReg(regs[i], a)
                  THEN CHOOSE i \in 1 .. Len(regs) : InReg(regs[i], a) ELSE 0
LastOf(r) == r.s + (r.n - 1)

\* number of consecutively mapped addresses starting at a, capped at c, never past WORD-1
RECURSIVE Run(_, _, _)
Run(regs, a, c) ==
    IF c = 0 \/ a >= WORD THEN 0
    ELSE LET i == Owner(regs, a) IN
         IF i = 0 THEN 0
         ELSE LET k == Min(regs[i].n - (a - regs[i].s), c) IN k + Run(regs, a + k, c - k)

ByteAt(regs, a) == LET i == Owner(regs, a) IN regs[i].mem[a - regs[i].s + 1]
RECURSIVE RdG(_, _, _)
RdG(regs, a, n) == IF n = 0 THEN <<>> ELSE <<ByteAt(regs, a)>> \o RdG(regs, a + 1, n - 1)

Put(mem, at, buf, n) == SubSeq(mem, 1, at) \o SubSeq(buf, 1, n) \o SubSeq(mem, at + n + 1, Len(mem))
Sub(mem, at, n) == SubSeq(mem, at + 1, at + n)

Tracked(s) == s.be = "mmap"
NPg(s, r) == DivCeil(r.n, s.P)

\* store buf[1..n] at guest addresses a .. a+n-1 (a run of mapped addresses), mark each region at its own offset
WrG(s, a, buf, n) ==
    [s EXCEPT !.regs = [i \in 1 .. Len(s.regs) |->
        LET r == s.regs[i]
            lo == Max(a, r.s)
            hi == Min(a + n, r.s + r.n)
        IN  IF lo < hi
            THEN [r EXCEPT !.mem = Put(r.mem, lo - r.s, SubSeq(buf, lo - a + 1, hi - a), hi - lo),
                           !.dirty = IF Tracked(s) THEN r.dirty \cup Pages(NPg(s, r), s.P, lo - r.s, hi - lo) ELSE {}]
            ELSE r]]

\* region-level store: n bytes at offset o of region i
WrR(s, i, o, buf, n) ==
    [s EXCEPT !.regs[i].mem = Put(s.regs[i].mem, o, buf, n),
              !.regs[i].dirty = IF Tracked(s) THEN s.regs[i].dirty \cup Pages(NPg(s, s.regs[i]), s.P, o, n) ELSE {}]

\* ---- impl-shaped: binary search of GuestMemoryMmap::find_region ---------------------------
ImplFind(regs, a) ==
    IF \E i \in 1 .. Len(regs) : regs[i].s = a THEN CHOOSE i \in 1 .. Len(regs) : regs[i].s = a
    ELSE LET x == Cardinality({i \in 1 .. Len(regs) : regs[i].s < a}) IN      \* insertion point
         IF x > 0 /\ a <= UAdd(regs[x].s, regs[x].n - 1) THEN x ELSE 0

\* ---- impl-shaped: the loop of try_access with a callback that handles the whole chunk ------
RECURSIVE TA(_, _, _, _)
TA(regs, cur, total, count) ==
    LET i == Owner(regs, cur) IN
    IF i = 0 THEN (IF total = 0 THEN Err("InvalidGuestAddress") ELSE OkN(total))
    ELSE LET start == cur - regs[i].s
             cap == USub(regs[i].n, start)
             len == Min(cap, USub(count, total))
         IN  IF cap = TRAP \/ USub(count, total) = TRAP THEN [k |-> "panic"]
             ELSE IF len = 0 THEN OkN(total)                  \* callback returned Ok(0)
             ELSE LET t2 == CheckedAdd(total, len) IN
                  IF t2 = NONE \/ t2 > count THEN Err("CallbackOutOfRange")
                  ELSE IF t2 = count THEN OkN(t2)
                  ELSE LET nx == OvfAdd(cur, len) IN
                       IF nx[2] /\ nx[1] # 0 THEN Err("GuestAddressOverflow")
                       ELSE IF nx[2] /\ ~WrapArm THEN OkN(t2)   \* the run ends at the top of the address space
                       ELSE TA(regs, nx[1], t2, count)

\* abstract result of an up-to access of c bytes at a (c > 0)
UpTo(regs, a, c) == LET n == Run(regs, a, c) IN IF n = 0 THEN Err("InvalidGuestAddress") ELSE OkN(n)

\* ---- the public try_access with a CLIENT callback -------------------------------------------
\* The callback answers from a script of replies, one per call: "full" (the chunk it was offered), "n" k (it claims
\* k >= 1 bytes, possibly more than it was offered), "zero", "err"; an exhausted script answers "full".  The result
\* carries every call the callback received: bytes done so far, chunk length, region-relative start, region base.
RECURSIVE TACb(_, _, _, _, _, _)
TACb(regs, cur, total, count, sc, calls) ==
    LET i == Owner(regs, cur) IN
    IF i = 0 THEN [res |-> IF total = 0 THEN "InvalidGuestAddress" ELSE "ok", n |-> total, calls |-> calls]
    ELSE LET start == cur - regs[i].s
             len == Min(regs[i].n - start, count - total)
             rep == IF sc = <<>> THEN [b |-> "full"] ELSE Head(sc)
             rest == IF sc = <<>> THEN <<>> ELSE Tail(sc)
             cs == Append(calls, [total |-> total, len |-> len, start |-> start, rs |-> regs[i].s])
             k == IF rep.b = "full" THEN len ELSE IF rep.b = "n" THEN rep.k ELSE 0
         IN  IF rep.b = "err" THEN [res |-> "IOError", n |-> total, calls |-> cs]
             ELSE IF k = 0 THEN [res |-> "ok", n |-> total, calls |-> cs]
             ELSE IF total + k > count THEN [res |-> "CallbackOutOfRange", n |-> total, calls |-> cs]
             ELSE IF total + k = count THEN [res |-> "ok", n |-> count, calls |-> cs]
             ELSE IF cur + k > WORD THEN [res |-> "GuestAddressOverflow", n |-> total + k, calls |-> cs]
             ELSE IF cur + k = WORD THEN [res |-> "ok", n |-> total + k, calls |-> cs]
             ELSE TACb(regs, cur + k, total + k, count, rest, cs)

\* ---- C14: guest-level transfers against a scripted stream ------------------------------------
\* read_volatile_from: try_access with callback region.read_volatile_from (one logical call per chunk)
\* returns [res |-> "ok"|"err"|"inv", n |-> bytes moved]
RECURSIVE SRead(_, _, _, _, _)
SRead(regs, cur, total, count, sc) ==
    LET i == Owner(regs, cur) IN
    IF i = 0 \/ cur >= WORD THEN [res |-> IF total = 0 THEN "inv" ELSE "ok", n |-> total]
    ELSE LET len == Min(regs[i].n - (cur - regs[i].s), count - total)
             c == Call(sc, len) IN
         IF c.r = ERR THEN [res |-> "err", n |-> total]
         ELSE IF c.r = 0 THEN [res |-> "ok", n |-> total]
         ELSE IF total + c.r = count THEN [res |-> "ok", n |-> count]
         ELSE SRead(regs, cur + c.r, total + c.r, count, c.s)
\* write_volatile_to: callback region.write_all_volatile_to(.., len).map(|()| len)  (write_all per region chunk)
\* returns [res |-> "ok"|"err"|"zero"|"inv", n |-> bytes accounted, out |-> bytes handed to the writer]
RECURSIVE SWrite(_, _, _, _, _, _)
SWrite(regs, cur, total, count, sc, out) ==
    LET i == Owner(regs, cur) IN
    IF i = 0 \/ cur >= WORD THEN [res |-> IF total = 0 THEN "inv" ELSE "ok", n |-> total, out |-> out]
    ELSE LET len == Min(regs[i].n - (cur - regs[i].s), count - total)
             x == Exact(sc, len, 0) IN
         IF x.res # "ok" THEN [res |-> x.res, n |-> total, out |-> out + x.done]
         ELSE IF len = 0 THEN [res |-> "ok", n |-> total, out |-> out]
         ELSE IF total + len = count THEN [res |-> "ok", n |-> count, out |-> out + len]
         ELSE SWrite(regs, cur + len, total + len, count, x.s, out + len)

\* ---- pure step function ---------------------------------------------------------
AllOrErr(n, c, okres) == IF n = c THEN okres
                         ELSE IF n = 0 THEN Err("InvalidGuestAddress")
                         ELSE [k |-> "err", e |-> "PartialBuffer", exp |-> c, done |-> n]

Apply(s, op, a) ==
  LET regs == s.regs IN
  CASE \* ---------------- C02: queries ----------------
       op = "find_region" ->
         LET i == Owner(regs, a.addr) IN Res(s, IF i = 0 THEN None ELSE [k |-> "ok", s |-> regs[i].s, n |-> regs[i].n])
    [] op = "to_region_addr" ->
         LET i == Owner(regs, a.addr) IN
         Res(s, IF i = 0 THEN None ELSE [k |-> "ok", s |-> regs[i].s, off |-> a.addr - regs[i].s])
    [] op = "address_in_range" -> Res(s, OkV(Owner(regs, a.addr) # 0))
    [] op = "check_address" -> Res(s, IF Owner(regs, a.addr) # 0 THEN OkV(a.addr) ELSE None)
    [] op = "checked_offset" ->
         LET x == CheckedAdd(a.base, a.off) IN
         Res(s, IF x # NONE /\ Owner(regs, x) # 0 THEN OkV(x) ELSE None)
    [] op = "check_range" ->
         Res(s, IF a.len = 0 /\ Owner(regs, a.base) = 0 THEN AnyRes ELSE OkV(Run(regs, a.base, a.len) = a.len))
    [] op = "last_addr" ->
         Res(s, IF Len(regs) = 0 THEN AnyRes
                ELSE OkV(CHOOSE m \in {LastOf(regs[i]) : i \in 1 .. Len(regs)} :
                            \A i \in 1 .. Len(regs) : LastOf(regs[i]) <= m))
    [] op = "get_host_address" ->
         LET i == Owner(regs, a.addr) IN
         Res(s, IF i = 0 THEN Err("InvalidGuestAddress") ELSE [k |-> "ok", s |-> regs[i].s, off |-> a.addr - regs[i].s])
    [] op = "get_slice" ->
         LET i == Owner(regs, a.addr) IN
         Res(s, IF i = 0 THEN (IF a.count = 0 THEN AnyRes ELSE Err("InvalidGuestAddress"))
                ELSE LET off == a.addr - regs[i].s
                         e == CheckedAdd(off, a.count) IN
                     IF e = NONE \/ e > regs[i].n THEN Err("InvalidBackendAddress")
                     ELSE [k |-> "ok", s |-> regs[i].s, off |-> off, len |-> a.count])
    [] op = "num_regions" -> Res(s, OkV(Len(regs)))
    [] op = "iter" -> Res(s, OkV([i \in 1 .. Len(regs) |-> <<regs[i].s, regs[i].n>>]))
       \* ---------------- region-level queries (provided methods of GuestMemoryRegion) --------
    [] op = "r_last_addr" -> Res(s, OkV(LastOf(regs[a.ri])))
    [] op = "r_address_in_range" -> Res(s, OkV(a.addr < regs[a.ri].n))
    [] op = "r_check_address" -> Res(s, IF a.addr < regs[a.ri].n THEN OkV(a.addr) ELSE None)
    [] op = "r_checked_offset" ->
         LET x == CheckedAdd(a.base, a.off) IN Res(s, IF x # NONE /\ x < regs[a.ri].n THEN OkV(x) ELSE None)
    [] op = "r_to_region_addr" ->
         Res(s, IF InReg(regs[a.ri], a.addr) THEN OkV(a.addr - regs[a.ri].s) ELSE None)
    [] op = "r_get_host_address" ->
         Res(s, IF a.addr < regs[a.ri].n THEN [k |-> "ok", off |-> a.addr] ELSE Err("InvalidBackendAddress"))
    [] op = "r_get_slice" ->
         LET e == CheckedAdd(a.off, a.count) IN
         Res(s, IF e = NONE \/ e > regs[a.ri].n THEN Err("InvalidBackendAddress")
                ELSE [k |-> "ok", off |-> a.off, len |-> a.count])
       \* ---------------- C03: data through Bytes<GuestAddress> ----------------
    [] op = "write" ->
         IF Len(a.buf) = 0 THEN Res(s, OkN(0))
         ELSE LET n == Run(regs, a.addr, Len(a.buf)) IN
              IF n = 0 THEN Res(s, Err("InvalidGuestAddress")) ELSE Res(WrG(s, a.addr, a.buf, n), OkN(n))
    [] op = "read" ->
         IF a.bl = 0 THEN Res(s, OkD(0, <<>>))
         ELSE LET n == Run(regs, a.addr, a.bl) IN
              IF n = 0 THEN Res(s, Err("InvalidGuestAddress")) ELSE Res(s, OkD(n, RdG(regs, a.addr, n)))
    [] op \in {"write_slice", "write_obj"} ->
         IF Len(a.buf) = 0 THEN Res(s, OkU)
         ELSE LET n == Run(regs, a.addr, Len(a.buf)) IN
              Res(IF n = 0 THEN s ELSE WrG(s, a.addr, a.buf, n), AllOrErr(n, Len(a.buf), OkU))
    [] op \in {"read_slice", "read_obj"} ->
         LET bl == IF op = "read_obj" THEN a.esz ELSE a.bl IN
         IF bl = 0 THEN Res(s, OkD(0, <<>>))
         ELSE LET n == Run(regs, a.addr, bl) IN
              Res(s, IF n = bl THEN OkD(n, RdG(regs, a.addr, n)) ELSE AllOrErr(n, bl, OkU))
    [] op = "store" ->
         LET i == Owner(regs, a.addr) IN
         IF i = 0 THEN Res(s, Err("InvalidGuestAddress"))
         ELSE LET off == a.addr - regs[i].s
                  e == CheckedAdd(off, Len(a.buf)) IN
              IF e = NONE \/ e > regs[i].n \/ off % Len(a.buf) # 0 THEN Res(s, Err("InvalidBackendAddress"))
              ELSE Res(WrR(s, i, off, a.buf, Len(a.buf)), OkU)
    [] op = "load" ->
         LET i == Owner(regs, a.addr) IN
         IF i = 0 THEN Res(s, Err("InvalidGuestAddress"))
         ELSE LET off == a.addr - regs[i].s
                  e == CheckedAdd(off, a.esz) IN
              IF e = NONE \/ e > regs[i].n \/ off % a.esz # 0 THEN Res(s, Err("InvalidBackendAddress"))
              ELSE Res(s, OkD(a.esz, Sub(regs[i].mem, off, a.esz)))
    [] op = "read_volatile_from" ->       \* in-memory source holding Len(a.src) bytes
         LET run == Run(regs, a.addr, a.count)
             n == Min(run, Len(a.src)) IN
         IF Owner(regs, a.addr) = 0 THEN Res(s, IF a.count = 0 THEN AnyRes ELSE Err("InvalidGuestAddress"))
         ELSE IF n = 0 THEN Res(s, OkN(0)) ELSE Res(WrG(s, a.addr, a.src, n), OkN(n))
    [] op = "read_exact_volatile_from" ->
         LET run == Run(regs, a.addr, a.count)
             n == Min(run, Len(a.src)) IN
         IF Owner(regs, a.addr) = 0 THEN Res(s, IF a.count = 0 THEN AnyRes ELSE Err("InvalidGuestAddress"))
         ELSE Res(IF n = 0 THEN s ELSE WrG(s, a.addr, a.src, n),
                  IF n = a.count THEN OkU ELSE [k |-> "err", e |-> "PartialBuffer", exp |-> a.count, done |-> n])
    [] op = "write_volatile_to" ->        \* sink = Vec<u8>
         LET n == Run(regs, a.addr, a.count) IN
         IF Owner(regs, a.addr) = 0 THEN Res(s, IF a.count = 0 THEN AnyRes ELSE Err("InvalidGuestAddress"))
         ELSE Res(s, OkD(n, RdG(regs, a.addr, n)))
    [] op = "write_all_volatile_to" ->
         LET n == Run(regs, a.addr, a.count) IN
         IF Owner(regs, a.addr) = 0 THEN Res(s, IF a.count = 0 THEN AnyRes ELSE Err("InvalidGuestAddress"))
         ELSE Res(s, IF n = a.count THEN OkD(n, RdG(regs, a.addr, n))
                     ELSE [k |-> "err", e |-> "PartialBuffer", exp |-> a.count, done |-> n, data |-> RdG(regs, a.addr, n)])
       \* ---------------- region-level Bytes<MemoryRegionAddress> ----------------
    [] op = "r_write" ->
         LET r == regs[a.ri] IN
         IF Len(a.buf) = 0 THEN Res(s, OkN(0))
         ELSE IF a.addr >= r.n THEN Res(s, Err("InvalidBackendAddress"))
         ELSE LET n == Min(Len(a.buf), r.n - a.addr) IN Res(WrR(s, a.ri, a.addr, a.buf, n), OkN(n))
    [] op = "r_read" ->
         LET r == regs[a.ri] IN
         IF a.bl = 0 THEN Res(s, OkD(0, <<>>))
         ELSE IF a.addr >= r.n THEN Res(s, Err("InvalidBackendAddress"))
         ELSE LET n == Min(a.bl, r.n - a.addr) IN Res(s, OkD(n, Sub(r.mem, a.addr, n)))
    [] op \in {"r_write_slice", "r_write_obj"} ->
         LET r == regs[a.ri] IN
         IF Len(a.buf) = 0 THEN Res(s, OkU)
         ELSE IF a.addr >= r.n THEN Res(s, Err("InvalidBackendAddress"))
         ELSE LET n == Min(Len(a.buf), r.n - a.addr) IN
              Res(WrR(s, a.ri, a.addr, a.buf, n),
                  IF n = Len(a.buf) THEN OkU ELSE [k |-> "err", e |-> "PartialBuffer", exp |-> Len(a.buf), done |-> n])
    [] op \in {"r_read_slice", "r_read_obj"} ->
         LET r == regs[a.ri]
             bl == IF op = "r_read_obj" THEN a.esz ELSE a.bl IN
         IF bl = 0 THEN Res(s, OkD(0, <<>>))
         ELSE IF a.addr >= r.n THEN Res(s, Err("InvalidBackendAddress"))
         ELSE LET n == Min(bl, r.n - a.addr) IN
              Res(s, IF n = bl THEN OkD(n, Sub(r.mem, a.addr, n))
                     ELSE [k |-> "err", e |-> "PartialBuffer", exp |-> bl, done |-> n])
    [] op = "r_store" ->
         LET r == regs[a.ri]
             e == CheckedAdd(a.addr, Len(a.buf)) IN
         IF e = NONE \/ e > r.n \/ a.addr % Len(a.buf) # 0 THEN Res(s, Err("InvalidBackendAddress"))
         ELSE Res(WrR(s, a.ri, a.addr, a.buf, Len(a.buf)), OkU)
    [] op = "r_load" ->
         LET r == regs[a.ri]
             e == CheckedAdd(a.addr, a.esz) IN
         IF e = NONE \/ e > r.n \/ a.addr % a.esz # 0 THEN Res(s, Err("InvalidBackendAddress"))
         ELSE Res(s, OkD(a.esz, Sub(r.mem, a.addr, a.esz)))
    [] op = "r_read_volatile_from" ->
         LET r == regs[a.ri] IN
         IF a.addr > r.n THEN Res(s, Err("InvalidBackendAddress"))
         ELSE LET n == Min(Min(r.n - a.addr, a.count), Len(a.src)) IN Res(WrR(s, a.ri, a.addr, a.src, n), OkN(n))
    [] op = "r_write_volatile_to" ->
         LET r == regs[a.ri] IN
         IF a.addr > r.n THEN Res(s, Err("InvalidBackendAddress"))
         ELSE LET n == Min(r.n - a.addr, a.count) IN Res(s, OkD(n, Sub(r.mem, a.addr, n)))
    [] op = "try_access_cb" ->
         LET x == TACb(regs, a.addr, 0, a.count, a.script, <<>>) IN
         IF x.res = "ok" THEN Res(s, [k |-> "ok", n |-> x.n, calls |-> x.calls])
         ELSE Res(s, [k |-> "err", e |-> x.res, ek |-> x.res, calls |-> x.calls])   \* (ek: compared exactly; e: reported as drift)
       \* ---------------- C14: scripted streams, guest level ----------------
    [] op \in {"s_read_from", "s_read_exact_from"} ->
         LET x == SRead(regs, a.addr, 0, a.count, a.script)
             s2 == IF x.n = 0 THEN s ELSE WrG(s, a.addr, SrcBytes(0, x.n), x.n) IN
         IF x.res = "inv" THEN Res(s, IF a.count = 0 THEN AnyRes ELSE Err("InvalidGuestAddress"))
         ELSE IF x.res = "err" THEN Res(s2, [k |-> "err", e |-> "IOError", io |-> "Other", used |-> x.n])
         ELSE IF op = "s_read_from" THEN Res(s2, [k |-> "ok", n |-> x.n, used |-> x.n])
         ELSE IF x.n = a.count THEN Res(s2, [k |-> "ok", used |-> x.n])
         ELSE Res(s2, [k |-> "err", e |-> "PartialBuffer", exp |-> a.count, done |-> x.n, used |-> x.n])
    [] op \in {"s_write_to", "s_write_all_to"} ->
         LET x == SWrite(regs, a.addr, 0, a.count, a.script, 0)
             got == RdG(regs, a.addr, x.out) IN
         IF x.res = "inv" THEN Res(s, IF a.count = 0 THEN AnyRes ELSE Err("InvalidGuestAddress"))
         ELSE IF x.res = "err" THEN Res(s, [k |-> "err", e |-> "IOError", io |-> "Other", data |-> got])
         ELSE IF x.res = "zero" THEN Res(s, [k |-> "err", e |-> "IOError", io |-> "WriteZero", data |-> got])
         ELSE IF op = "s_write_to" THEN Res(s, [k |-> "ok", n |-> x.n, data |-> got])
         ELSE IF x.n = a.count THEN Res(s, [k |-> "ok", data |-> got])
         ELSE Res(s, [k |-> "err", e |-> "PartialBuffer", exp |-> a.count, done |-> x.n, data |-> got])
       \* ---------------- C14: scripted streams, region level (= the VolatileSlice code) ----------------
    [] op = "rs_read_from" ->
         LET r == regs[a.ri] IN
         IF a.addr > r.n THEN Res(s, Err("InvalidBackendAddress"))
         ELSE LET c == Call(a.script, Min(r.n - a.addr, a.count)) IN
              IF c.r = ERR THEN Res(s, [k |-> "err", e |-> "IOError", io |-> "Other", used |-> 0])
              ELSE Res(WrR(s, a.ri, a.addr, SrcBytes(0, c.r), c.r), [k |-> "ok", n |-> c.r, used |-> c.r])
    [] op = "rs_read_exact_from" ->
         LET r == regs[a.ri]
             e == CheckedAdd(a.addr, a.count) IN
         IF e = NONE \/ e > r.n THEN Res(s, Err("InvalidBackendAddress"))
         ELSE LET x == Exact(a.script, a.count, 0)
                  s2 == WrR(s, a.ri, a.addr, SrcBytes(0, x.done), x.done) IN
              IF x.res = "ok" THEN Res(s2, [k |-> "ok", used |-> x.done])
              ELSE Res(s2, [k |-> "err", e |-> "IOError", io |-> IF x.res = "zero" THEN "UnexpectedEof" ELSE "Other",
                            used |-> x.done])
    [] op = "rs_write_to" ->
         LET r == regs[a.ri] IN
         IF a.addr > r.n THEN Res(s, Err("InvalidBackendAddress"))
         ELSE LET c == Call(a.script, Min(r.n - a.addr, a.count)) IN
              IF c.r = ERR THEN Res(s, [k |-> "err", e |-> "IOError", io |-> "Other", data |-> <<>>])
              ELSE Res(s, [k |-> "ok", n |-> c.r, data |-> Sub(r.mem, a.addr, c.r)])
    [] op = "rs_write_all_to" ->
         LET r == regs[a.ri]
             e == CheckedAdd(a.addr, a.count) IN
         IF e = NONE \/ e > r.n THEN Res(s, Err("InvalidBackendAddress"))
         ELSE LET x == Exact(a.script, a.count, 0) IN
              IF x.res = "ok" THEN Res(s, [k |-> "ok", data |-> Sub(r.mem, a.addr, x.done)])
              ELSE Res(s, [k |-> "err", e |-> "IOError", io |-> IF x.res = "zero" THEN "WriteZero" ELSE "Other",
                           data |-> Sub(r.mem, a.addr, x.done)])
    [] op = "bitmap_reset" ->
         Res([s EXCEPT !.regs = [i \in 1 .. Len(regs) |-> [regs[i] EXCEPT !.dirty = {}]]], OkU)

\* ---- actions ---------------------------------------------------------------------
Step(op, a) ==
    /\ st.ph = "go"
    /\ LET x == Apply(st, op, a) IN
         /\ st' = IF x.st = st THEN st ELSE [x.st EXCEPT !.ph = "done"]   \* a write ends the history
         /\ last' = [op |-> op, a |-> a, r |-> x.r]

TagSeq == <<101, 102, 103, 104, 105, 106, 107, 108, 109, 110, 111, 112, 113, 114, 115, 116, 117, 118, 119, 120,
            121, 122, 123, 124, 125, 126, 127, 128, 129, 130, 131, 132>>
Tag(n) == SubSeq(TagSeq, 1, n)
FillSeq == <<1, 2, 3, 4, 5, 6, 7, 8, 9, 10, 11, 12, 13, 14, 15, 16>>

RegIdx == 1 .. Len(st.regs)

Q1(op) == \E x \in AddrVals : Step(op, [addr |-> x])
FindRegion == Q1("find_region")
ToRegionAddr == Q1("to_region_addr")
AddressInRange == Q1("address_in_range")
CheckAddress == Q1("check_address")
CheckedOffset == \E b \in AddrVals, o \in CntVals : Step("checked_offset", [base |-> b, off |-> o])
CheckRange == \E b \in AddrVals, n \in CntVals : Step("check_range", [base |-> b, len |-> n])
LastAddr == Step("last_addr", [x |-> 0])
GetHostAddress == Q1("get_host_address")
GetSlice == \E x \in AddrVals, n \in CntVals : Step("get_slice", [addr |-> x, count |-> n])
NumRegions == Step("num_regions", [x |-> 0])
Iter == Step("iter", [x |-> 0])
RQueries == \E i \in RegIdx :
              \/ Step("r_last_addr", [ri |-> i])
              \/ \E x \in AddrVals : \/ Step("r_address_in_range", [ri |-> i, addr |-> x])
                                     \/ Step("r_check_address", [ri |-> i, addr |-> x])
                                     \/ Step("r_to_region_addr", [ri |-> i, addr |-> x])
                                     \/ Step("r_get_host_address", [ri |-> i, addr |-> x])
              \/ \E b \in AddrVals, o \in CntVals : \/ Step("r_checked_offset", [ri |-> i, base |-> b, off |-> o])
                                                    \/ Step("r_get_slice", [ri |-> i, off |-> b, count |-> o])
Write == \E x \in AddrVals, b \in BufLens : Step("write", [addr |-> x, buf |-> Tag(b)])
Read == \E x \in AddrVals, b \in BufLens : Step("read", [addr |-> x, bl |-> b])
WriteSlice == \E x \in AddrVals, b \in BufLens : Step("write_slice", [addr |-> x, buf |-> Tag(b)])
ReadSlice == \E x \in AddrVals, b \in BufLens : Step("read_slice", [addr |-> x, bl |-> b])
WriteObj == \E x \in AddrVals, e \in EszVals : Step("write_obj", [addr |-> x, buf |-> Tag(e)])
ReadObj == \E x \in AddrVals, e \in EszVals : Step("read_obj", [addr |-> x, esz |-> e])
Store == \E x \in AddrVals, e \in AtomVals : Step("store", [addr |-> x, buf |-> Tag(e)])
Load == \E x \in AddrVals, e \in AtomVals : Step("load", [addr |-> x, esz |-> e])
ReadVolatileFrom == \E x \in AddrVals, k \in BufLens, n \in CntVals :
                       Step("read_volatile_from", [addr |-> x, src |-> Tag(k), count |-> n])
ReadExactVolatileFrom == \E x \in AddrVals, k \in BufLens, n \in CntVals :
                       Step("read_exact_volatile_from", [addr |-> x, src |-> Tag(k), count |-> n])
WriteVolatileTo == \E x \in AddrVals, n \in CntVals : Step("write_volatile_to", [addr |-> x, count |-> n])
WriteAllVolatileTo == \E x \in AddrVals, n \in CntVals : Step("write_all_volatile_to", [addr |-> x, count |-> n])
RData == \E i \in RegIdx, x \in AddrVals :
            \/ \E b \in BufLens : \/ Step("r_write", [ri |-> i, addr |-> x, buf |-> Tag(b)])
                                  \/ Step("r_read", [ri |-> i, addr |-> x, bl |-> b])
                                  \/ Step("r_write_slice", [ri |-> i, addr |-> x, buf |-> Tag(b)])
                                  \/ Step("r_read_slice", [ri |-> i, addr |-> x, bl |-> b])
            \/ \E e \in EszVals : \/ Step("r_write_obj", [ri |-> i, addr |-> x, buf |-> Tag(e)])
                                  \/ Step("r_read_obj", [ri |-> i, addr |-> x, esz |-> e])
            \/ \E e \in AtomVals : \/ Step("r_store", [ri |-> i, addr |-> x, buf |-> Tag(e)])
                                   \/ Step("r_load", [ri |-> i, addr |-> x, esz |-> e])
            \/ \E k \in BufLens, n \in CntVals :
                   Step("r_read_volatile_from", [ri |-> i, addr |-> x, src |-> Tag(k), count |-> n])
            \/ \E n \in CntVals : Step("r_write_volatile_to", [ri |-> i, addr |-> x, count |-> n])

SGuest == \E x \in AddrVals, n \in CntVals, sc \in Scripts :
             \/ Step("s_read_from", [addr |-> x, count |-> n, script |-> sc])
             \/ Step("s_read_exact_from", [addr |-> x, count |-> n, script |-> sc])
             \/ Step("s_write_to", [addr |-> x, count |-> n, script |-> sc])
             \/ Step("s_write_all_to", [addr |-> x, count |-> n, script |-> sc])
SRegion == \E i \in RegIdx, x \in AddrVals, n \in CntVals, sc \in Scripts :
             \/ Step("rs_read_from", [ri |-> i, addr |-> x, count |-> n, script |-> sc])
             \/ Step("rs_read_exact_from", [ri |-> i, addr |-> x, count |-> n, script |-> sc])
             \/ Step("rs_write_to", [ri |-> i, addr |-> x, count |-> n, script |-> sc])
             \/ Step("rs_write_all_to", [ri |-> i, addr |-> x, count |-> n, script |-> sc])

MkRegs(lay) == [i \in 1 .. Len(lay) |->
                  [s |-> lay[i][1], n |-> lay[i][2], mem |-> IF lay[i][2] <= Len(FillSeq) THEN SubSeq(FillSeq, 1, lay[i][2]) ELSE [j \in 1 .. lay[i][2] |-> 0],
                   dirty |-> {}]]

Init == \E lay \in Layouts, be \in Backends, p \in PVals :
          /\ st = [be |-> be, P |-> p, regs |-> MkRegs(lay), ph |-> "go"]
          /\ last = [op |-> "init", a |-> [be |-> be, p |-> p, lay |-> lay], r |-> OkU]

Queries == \/ FindRegion \/ ToRegionAddr \/ AddressInRange \/ CheckAddress \/ CheckedOffset \/ CheckRange
           \/ LastAddr \/ GetHostAddress \/ GetSlice \/ NumRegions \/ Iter \/ RQueries
Data == \/ Write \/ Read \/ WriteSlice \/ ReadSlice \/ WriteObj \/ ReadObj \/ Store \/ Load
        \/ ReadVolatileFrom \/ ReadExactVolatileFrom \/ WriteVolatileTo \/ WriteAllVolatileTo \/ RData
        \/ SGuest \/ SRegion
Next == Queries \/ Data
Spec == Init /\ [][Next]_vars

\* ---- properties --------------------------------------------------------------------
Mapped(regs) == {x \in 0 .. WORD - 1 : Owner(regs, x) # 0}

\* C03: bytes change only inside the run that was named
FrameG ==
    [][ \A i \in 1 .. Len(st.regs) : \A j \in 1 .. st.regs[i].n :
          st'.regs[i].mem[j] # st.regs[i].mem[j] =>
             /\ "addr" \in DOMAIN last'.a
             /\ LET g == st.regs[i].s + j - 1 IN
                IF "ri" \in DOMAIN last'.a THEN last'.a.ri = i /\ j - 1 >= last'.a.addr
                ELSE g >= last'.a.addr /\ \A x \in last'.a.addr .. g : Owner(st.regs, x) # 0 ]_vars
\* C05 at guest level: a changed byte is dirty in the bitmap of the region that owns it, at its own offset
DirtySoundG ==
    [][ Tracked(st) => \A i \in 1 .. Len(st.regs) : \A j \in 1 .. st.regs[i].n :
          st'.regs[i].mem[j] # st.regs[i].mem[j] => ((j - 1) \div st.P) \in st'.regs[i].dirty ]_vars
LayoutFixed == [][ \A i \in 1 .. Len(st.regs) : st'.regs[i].s = st.regs[i].s /\ st'.regs[i].n = st.regs[i].n ]_vars

\* C14: an interruption never surfaces; every byte consumed from a scripted reader is stored (count used = bytes
\* stored at consecutive guest addresses), every byte handed to a scripted writer is the next guest byte
ScriptedOps == {"s_read_from", "s_read_exact_from", "s_write_to", "s_write_all_to",
                "rs_read_from", "rs_read_exact_from", "rs_write_to", "rs_write_all_to"}
EintrNeverSurfaces == (last.op \in ScriptedOps /\ "io" \in DOMAIN last.r) => last.r.io # "Interrupted"
ExactIffFull == (last.op \in {"s_read_exact_from", "rs_read_exact_from"} /\ last.r.k \in {"ok", "err"} /\ "used" \in DOMAIN last.r)
                   => (last.r.k = "ok" <=> last.r.used = last.a.count)
NoLossNoDup ==
    [][ (last'.op \in {"s_read_from", "s_read_exact_from"} /\ "used" \in DOMAIN last'.r) =>
          \A j \in 1 .. last'.r.used : ByteAt(st'.regs, last'.a.addr + j - 1) = SrcByte(j) ]_vars

View == st
=============================================================================
