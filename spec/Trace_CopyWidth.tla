--------------------------- MODULE Trace_CopyWidth ---------------------------
(* Recorded primitive accesses (hook in copy_single / the bulk branch) of every entry point that funnels *)
(* into the byte-copy helper, for every length 0..9 and every guest / local address residue modulo 8.    *)
EXTENDS CopyWidth, Json, IOUtils
Rec == ndJsonDeserialize(IOEnv.TRACE)
VARIABLE l
Judge(ok, tag, exp) == IF ok THEN TRUE ELSE PrintT(<<"MISMATCH", l, tag, ToJson(exp)>>)
Drift(ok, tag, exp) == IF ok THEN TRUE ELSE PrintT(<<"DRIFT", l, tag, ToJson(exp)>>)

AtomicEntries == {"s_store", "s_load", "r_store", "r_load", "g_store", "g_load"}
StoreEntries == {"s_store", "r_store", "g_store"}

\* ---- machine level (valgrind lackey): e.r.mach = << <<kind, offset from the guest location, size, instruction>> ... >>,
\* the instructions that touched the n guest bytes during the call.  L = load, S = store, M = read-modify-write
\* (a locked xchg is reported as L and M of ONE instruction).
HasMach(e) == "mach" \in DOMAIN e.r
SeqCstReq(e) == ("ord" \notin DOMAIN e.a) \/ e.a.ord = "seqcst"
Instrs(m) == {m[i][4] : i \in 1 .. Len(m)}
KindsOf(m) == {m[i][1] : i \in 1 .. Len(m)}
OneInstr(m, n) == Cardinality(Instrs(m)) = 1 /\ \A i \in 1 .. Len(m) : m[i][2] = 0 /\ m[i][3] = n
Shape(acc) == [i \in 1 .. Len(acc) |-> IF acc[i].w = 0 THEN [w |-> 0, off |-> acc[i].goff, bulk |-> acc[i].bulk]
                                       ELSE [w |-> acc[i].w, off |-> acc[i].goff]]

TraceInit == l = 1 /\ cfg = [total |-> 1, s |-> 8, d |-> 8] /\ guest = <<>> /\ wpc = 1 /\ rpc = 1 /\ seen = <<>>
TraceNext ==
    /\ l <= Len(Rec)
    /\ LET e == Rec[l]
           n == e.a.n
           g == e.r.gres + 8
           lo == e.r.lres + 8 IN
       IF e.a.entry \in AtomicEntries
       THEN /\ Judge(e.r.res.k = (IF e.r.gres % n = 0 THEN "ok" ELSE "err") /\ Len(e.r.acc) = 0, "atomic_alignment",
                     [expected |-> IF e.r.gres % n = 0 THEN "ok" ELSE "err"])
            \* machine level: one instruction of width n; a store requested SeqCst is a locked read-modify-write, a load a load
            /\ Judge((HasMach(e) /\ e.r.gres % n = 0) =>
                        /\ OneInstr(e.r.mach, n)
                        /\ (IF e.a.entry \in StoreEntries
                            THEN (IF SeqCstReq(e) THEN "M" \in KindsOf(e.r.mach) ELSE KindsOf(e.r.mach) \subseteq {"S", "M", "L"} /\ KindsOf(e.r.mach) \cap {"S", "M"} # {})
                            ELSE KindsOf(e.r.mach) = {"L"}),
                     "machine_atomic", [expected |-> IF e.a.entry \in StoreEntries THEN "one store instruction (locked read-modify-write for SeqCst)" ELSE "one load"])
       ELSE /\ Judge(e.r.res.k = "ok", "panic", [res |-> e.r.res])
            \* C06: one access of width n touching the guest location, when both sides are aligned to n
            /\ Judge(IsSingle(n, lo, g) => (Len(e.r.acc) = 1 /\ e.r.acc[1].w = n /\ e.r.acc[1].goff = 0), "single",
                     [expected |-> <<[w |-> n, off |-> 0]>>])
            \* machine level: the guest location is touched by exactly one instruction, of width n, in the right direction
            /\ Judge((HasMach(e) /\ IsSingle(n, lo, g)) =>
                        (OneInstr(e.r.mach, n) /\ KindsOf(e.r.mach) = (IF e.r.to_guest THEN {"S"} ELSE {"L"})),
                     "machine_single", [expected |-> <<IF e.r.to_guest THEN "S" ELSE "L", 0, n>>])
            \* the full access sequence of the transcription: informational
            /\ Drift(Shape(e.r.acc) = Accesses(n, lo, g), "sequence", [expected |-> Accesses(n, lo, g)])
    /\ l' = l + 1
    /\ UNCHANGED <<cfg, guest, wpc, rpc, seen>>
TraceSpec == TraceInit /\ [][TraceNext]_<<l, cfg, guest, wpc, rpc, seen>>
Accepted ==
    LET d == TLCGet("stats").diameter IN
    IF d - 1 = Len(Rec) THEN TRUE ELSE Print(<<"UNMATCHED", d, ToJson(Rec[d])>>, FALSE)
=============================================================================
