----------------------------- MODULE MarkOrder -----------------------------
(***************************************************************************)
(* A tracked write racing with a migration round (C05 under concurrency:   *)
(* "all histories that interleave writes with bitmap resets").              *)
(*                                                                           *)
(* A WRITER performs tracked writes the way the code does: first the bytes   *)
(* are copied (one step per primitive access of the copy helper), THEN the   *)
(* pages are marked (one fetch_or per page).  A MIGRATOR performs rounds:    *)
(* fetch-and-clear the bitmap (one atomic step per word), then send the      *)
(* pages it harvested (one read step per page).  The destination's image    *)
(* `sent` starts equal to memory.                                            *)
(*                                                                           *)
(* Soundness of dirty tracking is what makes pre-copy migration converge to  *)
(* an identical image: at any quiescent point, every page whose content      *)
(* differs from what was sent is dirty (so a further round resends it).      *)
(* With the mark BEFORE the copy a round can harvest the mark, send the old  *)
(* bytes, and the new bytes then land on a clean page: the variant           *)
(* MarkFirst = TRUE must be refuted.                                         *)
(***************************************************************************)
EXTENDS Naturals, Sequences, FiniteSets, TLC

CONSTANTS NP,          \* pages (one bitmap word)
          Writes,      \* sequence of writes: each a set of pages it touches (contiguous)
          Rounds,      \* number of migration rounds
          MarkFirst    \* FALSE: copy then mark (the code); TRUE: mark then copy (must be refuted)

Pages == 0 .. NP - 1
VARIABLES mem,     \* page -> version (number of the last write that touched it; 0 = initial)
          sent,    \* page -> version the destination holds
          bits,    \* dirty pages
          wpc,     \* writer: <<write index, phase, remaining pages of the phase>>
          mpc,     \* migrator: <<round, phase>>  phase \in {"harvest", "send", "done"}
          got      \* pages harvested by the running round, still to be sent
vars == <<mem, sent, bits, wpc, mpc, got>>

Min(S) == CHOOSE x \in S : \A y \in S : x <= y
Phases == IF MarkFirst THEN <<"mark", "copy">> ELSE <<"copy", "mark">>

Init == /\ mem = [p \in Pages |-> 0] /\ sent = [p \in Pages |-> 0] /\ bits = {}
        /\ wpc = IF Len(Writes) = 0 THEN <<1, 1, {}>> ELSE <<1, 1, Writes[1]>>
        /\ mpc = <<1, IF Rounds = 0 THEN "done" ELSE "harvest">> /\ got = {}

WDone == wpc[1] > Len(Writes)
\* one step of the writer: copy one page's bytes, or mark one page
WStep == /\ ~WDone
         /\ LET i == wpc[1]
                ph == Phases[wpc[2]]
                p == Min(wpc[3]) IN
            /\ IF ph = "copy" THEN mem' = [mem EXCEPT ![p] = i] /\ UNCHANGED bits
                              ELSE bits' = bits \cup {p} /\ UNCHANGED mem
            /\ wpc' = IF wpc[3] = {p}
                      THEN IF wpc[2] = 1 THEN <<i, 2, Writes[i]>>
                           ELSE <<i + 1, 1, IF i + 1 <= Len(Writes) THEN Writes[i + 1] ELSE {}>>
                      ELSE <<i, wpc[2], wpc[3] \ {p}>>
         /\ UNCHANGED <<sent, mpc, got>>

MDone == mpc[2] = "done"
MStep == /\ ~MDone
         /\ \/ /\ mpc[2] = "harvest"                 \* fetch-and-clear (one word)
               /\ got' = bits /\ bits' = {}
               /\ mpc' = IF bits = {} THEN (IF mpc[1] < Rounds THEN <<mpc[1] + 1, "harvest">> ELSE <<mpc[1], "done">>)
                                      ELSE <<mpc[1], "send">>
               /\ UNCHANGED <<mem, sent>>
            \/ /\ mpc[2] = "send"                    \* send one harvested page as it is now
               /\ LET p == Min(got) IN
                  /\ sent' = [sent EXCEPT ![p] = mem[p]]
                  /\ got' = got \ {p}
                  /\ mpc' = IF got = {p} THEN (IF mpc[1] < Rounds THEN <<mpc[1] + 1, "harvest">> ELSE <<mpc[1], "done">>)
                                         ELSE mpc
               /\ UNCHANGED <<mem, bits>>
         /\ UNCHANGED wpc

Next == WStep \/ MStep
Spec == Init /\ [][Next]_vars

Quiescent == WDone /\ MDone
\* C05, concurrent reading: whatever differs from the image that was sent is still reported dirty
Converges == Quiescent => \A p \in Pages : mem[p] # sent[p] => p \in bits
\* and at every moment: a page that differs and is clean has its write still in flight (the mark is yet to come) or its
\* harvest still in flight (the send is yet to come)
InFlight == \A p \in Pages : (mem[p] # sent[p] /\ p \notin bits) =>
                \/ p \in got
                \/ (~WDone /\ p \in Writes[wpc[1]] /\ (Phases[wpc[2]] = "copy" \/ p \in wpc[3]))
=============================================================================
