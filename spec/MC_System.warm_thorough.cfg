SPECIFICATION Spec
CONSTANTS
  Cands <- CandsS
  P = 2
  MaxRegs = 3
  MaxHandles = 9
  MaxCells = 1
  MaxOps = 5
  Addrs <- AddrsMC
  Lens = {6}
  IdSeqs <- IdSeqsQ
  Warm = 1
  Variant = "code"
INVARIANTS AllValid DirtySound DirtyInside
PROPERTIES Immutable Isolation NoResurrection
VIEW View
CHECK_DEADLOCK FALSE
