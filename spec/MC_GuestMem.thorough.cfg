\* design check: try_access and find_region refine the flat-array semantics for every layout of an
\* 10-address space (thorough) (regions may end at the very top), plus the state machine over those layouts
SPECIFICATION Spec
CONSTANTS
  WORD = 10
  LemmaAS = 10
  LemmaML = 3
  GenAS = 10
  Layouts <- LayMC
  Backends = {"custom"}
  PVals = {2}
  AddrVals = {0, 1, 2, 3, 4, 5, 6, 7, 8, 9}
  CntVals = {0, 1, 2, 3, 9}
  BufLens = {0, 1, 4, 9}
  EszVals = {0, 1, 2, 4}
  AtomVals = {1, 2, 4}
  Scripts <- ScriptsNone
  WrapArm = FALSE
PROPERTIES FrameG DirtySoundG LayoutFixed
VIEW View
CHECK_DEADLOCK FALSE
