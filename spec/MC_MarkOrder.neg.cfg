SPECIFICATION Spec
CONSTANTS
  NP = 3
  Writes <- WritesMC
  Rounds = 2
  MarkFirst = TRUE
INVARIANTS Converges
CHECK_DEADLOCK FALSE
