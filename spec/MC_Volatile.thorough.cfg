\* multi-operation histories (OneShot = FALSE): data operations chain, so the frame / dirty properties are checked
\* on every reachable memory content of a 3-byte container
SPECIFICATION Spec
CONSTANTS
  WORD = 16
  Roots <- RootsMCT
  OffVals = {0, 1, 2, 3, 15}
  CntVals = {0, 1, 2, 3}
  EszVals = {0, 1, 2}
  NVals = {0, 1, 2}
  AtomVals = {1, 2}
  BufLens = {0, 1, 2}
  TgtVals <- TgtsMCT
  OneShot = FALSE
INVARIANTS Contained AlignedRefs DirtyInRange OnlyDocumentedPanics
PROPERTIES ContainedInParent ErrNoAccessor Frame DirtySound DirtyConfined ReadsMarkNothing ZeroLenNoop
VIEW View
CHECK_DEADLOCK FALSE
