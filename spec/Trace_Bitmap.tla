---------------------------- MODULE Trace_Bitmap ----------------------------
(***************************************************************************)
(* Trace validation for Bitmap: every event recorded from the real         *)
(* AtomicBitmap / Option<AtomicBitmap> / RefSlice / ArcSlice must be a     *)
(* step Bitmap!Apply allows, judged from the implementation's own logged   *)
(* pre-state (the specification state is re-synchronised from the log      *)
(* after each event, so one defect does not cascade).                      *)
(* A disagreement prints one MISMATCH line and the run continues; the run  *)
(* is accepted when every event was consumed (POSTCONDITION) and no        *)
(* MISMATCH line was printed.                                              *)
(***************************************************************************)
EXTENDS Bitmap, Json, IOUtils

CONSTANT Check          \* which comparisons this run enables: subset of {"res", "state"}

Rec == ndJsonDeserialize(IOEnv.TRACE)

VARIABLE l              \* index of the next event
tvars == <<bm, last, l>>

ToSet(seq) == {seq[i] : i \in DOMAIN seq}

\* specification handle rebuilt from a logged projection
LoggedHandle(o) == IF o.live THEN [live |-> TRUE, bs |-> o.bsz, ps |-> o.ps, dirty |-> ToSet(o.bits), tr |-> o.tr]
                   ELSE Dead
Logged(e) == <<LoggedHandle(e.s.bm[1]), LoggedHandle(e.s.bm[2])>>

\* does the logged projection o agree with specification handle b ?
HandleOK(b, o) ==
    /\ o.live = b.live
    /\ b.live =>
         /\ o.len = NP(b) /\ o.bsz = b.bs /\ o.ps = b.ps /\ o.tr = b.tr
         /\ ToSet(o.bits) = b.dirty                       \* scanned to len+70: nothing beyond len
         /\ \A x \in ToSet(o.aset) : PageOf(b, x) \in b.dirty
         /\ \A x \in ToSet(o.aclr) : PageOf(b, x) \notin b.dirty
StateOK(t, e) == HandleOK(t[1], e.s.bm[1]) /\ HandleOK(t[2], e.s.bm[2])

NormRes(r) == IF r.k = "pages" THEN [k |-> "pages", pages |-> ToSet(r.pages), words |-> r.words] ELSE r

Judge(ok, tag, exp) == IF ok THEN TRUE ELSE PrintT(<<"MISMATCH", l, tag, ToJson(exp)>>)

TraceInit == /\ bm = <<Dead, Dead>>
             /\ last = [op |-> "none", a |-> [h |-> 1], r |-> Unit]
             /\ l = 1

TraceNext ==
    /\ l <= Len(Rec)
    /\ LET e == Rec[l] IN
         IF e.op = "init"
         THEN LET t == <<IF e.a.tr THEN Fresh(e.a.bs, e.a.ps) ELSE Untracked(e.a.ps), Dead>> IN
              /\ Judge("state" \in Check => StateOK(t, e), "state", [exp |-> t])
              /\ bm' = Logged(e)
              /\ last' = [op |-> "init", a |-> e.a, r |-> Unit]
         ELSE LET x == Apply(bm, e.op, e.a) IN
              /\ Judge("res" \in Check => NormRes(e.r) = x.r, "res", [exp |-> x.r])
              /\ Judge("state" \in Check => StateOK(x.bm, e), "state", [exp |-> x.bm])
              /\ Judge("nopanic" \in Check => e.r.k # "panic", "nopanic", [exp |-> x.r])
              /\ bm' = Logged(e)
              /\ last' = [op |-> e.op, a |-> e.a, r |-> x.r]
    /\ l' = l + 1

TraceSpec == TraceInit /\ [][TraceNext]_tvars

\* the implementation's own states must satisfy the state invariants of the specification
TraceInRange == InRange /\ UntrackedClean

Accepted ==
    LET d == TLCGet("stats").diameter IN
    IF d - 1 = Len(Rec) THEN TRUE
    ELSE Print(<<"UNMATCHED", d, ToJson(Rec[d])>>, FALSE)
=============================================================================
