SPECIFICATION Spec
CONSTANTS
  NP = 3
  Writes <- WritesMC
  Rounds = 2
  MarkFirst = FALSE
INVARIANTS Converges InFlight
CHECK_DEADLOCK FALSE
