SPECIFICATION TraceSpec
CONSTANTS
  WORD = 1073741824
  Layouts = {}
  Backends = {}
  PVals = {}
  AddrVals = {0}
  CntVals = {0}
  BufLens = {0}
  EszVals = {1}
  AtomVals = {1}
  Scripts = {}
  WrapArm = FALSE
  Check = {"query"}
POSTCONDITION Accepted
CHECK_DEADLOCK FALSE
