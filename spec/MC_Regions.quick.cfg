\* all histories of up to 5 operations over 3 regions with starts/lengths in a small universe
\* (regions overlapping by one byte, duplicate starts, adjacent regions, wrong-size removals)
SPECIFICATION Spec
CONSTANTS
  WORD = 8
  StartVals = {0, 2, 3, 6}
  LenVals = {1, 2, 3}
  MaxPool = 3
  MaxMaps = 3
  MaxOps = 5
  IdSeqs <- Ids3
  TagVals = {9}
INVARIANTS AllMapsValid ChecksExact RefusalApplies
PROPERTIES OldMapsIntact PlusMinusOne
VIEW View
CHECK_DEADLOCK FALSE
