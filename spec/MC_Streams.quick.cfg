\* every stream class x lengths on both sides of the 8-byte small-copy threshold x consecutive calls
SPECIFICATION Spec
CONSTANTS
  WORD = 1024
  Streams0 <- StreamsMC
  BufLens = {0, 1, 2, 8, 9, 10}
  PosVals = {0, 1, 9, 10, 11, 20}
INVARIANTS ReadSane
PROPERTIES ExactIff SinkFrame
CONSTRAINT Depth4
VIEW View
CHECK_DEADLOCK FALSE
