---------------------------- MODULE Trace_Streams ----------------------------
(***************************************************************************)
(* Each event carries the outcome of the volatile call on the real adapter *)
(* (r.vol, s.vol) and of the std::io call on a twin stream (r.std, s.std). *)
(*  - the volatile outcome must be the step Streams!Apply allows  (C13)    *)
(*  - the volatile and the std outcome must agree directly         (C13)   *)
(*  - the std outcome must be that step too: this guards the transcription *)
(*    of std in Streams.tla; a disagreement there is reported as STDMODEL  *)
(*    (a defect of the specification, not of vm-memory)                    *)
(***************************************************************************)
EXTENDS Streams, Json, IOUtils

Rec == ndJsonDeserialize(IOEnv.TRACE)
VARIABLE l
tvars == <<st, last, l>>

Judge(ok, tag, exp) == IF ok THEN TRUE ELSE PrintT(<<"MISMATCH", l, tag, ToJson(exp)>>)
Guard(ok, tag, exp) == IF ok THEN TRUE ELSE PrintT(<<"STDMODEL", l, tag, ToJson(exp)>>)

Cls(kind) == CASE kind \in {"slice_src", "unix_src"} -> "src"
               [] kind = "unix_chunks" -> "chunked"
               [] kind = "slice_sink" -> "sink"
               [] kind \in {"vec", "unix_sink"} -> "grow"
               [] kind \in {"cursor_vec", "cursor_slice"} -> "cur_src"
               [] kind = "cursor_sink" -> "cur_sink"
               [] kind \in {"file", "ofd", "bfd"} -> "file"

\* does outcome (r, s) of one side match the specification step x ?
Matches(r, s, x) ==
    IF x.r.k = "skip" THEN r.k = "skip"
    ELSE IF x.r.k = "ok"
    THEN /\ r.k = "ok"
         /\ ("n" \in DOMAIN x.r => "n" \in DOMAIN r /\ r.n = x.r.n)
         /\ ("buf" \in DOMAIN x.r => r.buf = x.r.buf /\ r.canary)
         /\ s.data = x.st.data /\ s.pos = x.st.pos
         /\ ("src_intact" \in DOMAIN r => r.src_intact)
    ELSE /\ r.k = "err" /\ r.io = x.r.io
         /\ ("canary" \in DOMAIN r => r.canary)

\* the volatile and the std outcome agree (position / contents after a FAILED exact transfer are not compared)
Twin(e) == /\ e.r.vol.k = e.r.std.k
           /\ e.r.vol.k = "ok" => /\ ("n" \in DOMAIN e.r.std => e.r.vol.n = e.r.std.n)
                                  /\ ("buf" \in DOMAIN e.r.std => e.r.vol.buf = e.r.std.buf)
                                  /\ e.s.vol = e.s.std
           /\ e.r.vol.k = "err" => e.r.vol.io = e.r.std.io

TraceInit == /\ st = [cls |-> "src", data |-> <<>>, pos |-> 0, ops |-> 0]
             /\ last = [op |-> "none", a |-> [x |-> 0], r |-> [k |-> "ok"]]
             /\ l = 1

TraceNext ==
    /\ l <= Len(Rec)
    /\ LET e == Rec[l] IN
         IF e.op = "init"
         THEN /\ Judge(e.s.vol.data = e.a.data /\ e.s.std = e.s.vol, "init", [data |-> e.a.data])
              /\ st' = [cls |-> Cls(e.a.kind), data |-> e.s.vol.data, pos |-> e.s.vol.pos, ops |-> 0]
              /\ last' = [op |-> "init", a |-> e.a, r |-> [k |-> "ok"]]
         ELSE IF e.op = "full_sock"
         THEN \* a descriptor that takes less than it is offered: the count reported is what the kernel took (nothing lost,
              \* nothing claimed that was not delivered); the exact form succeeds precisely when everything was delivered,
              \* as std's write_all does on a twin socket
              /\ Judge(/\ e.r.prefix
                       /\ (e.r.vol.k = "ok" /\ ~e.a.exact) => e.r.vol.n = e.r.delivered
                       /\ (e.r.vol.k = "ok" /\ e.a.exact) => e.r.delivered = e.a.len
                       /\ (e.a.exact /\ e.r.delivered < e.a.len) => e.r.vol.k = "err",
                       "vol", [delivered |-> e.r.delivered])
              /\ Judge(e.r.vol.k = e.r.std.k /\ (e.r.vol.k = "err" => e.r.vol.io = e.r.std.io), "twin", [std |-> e.r.std])
              /\ UNCHANGED <<st, last>>
         ELSE LET x == Apply(st, e.op, e.a) IN
              /\ Judge(Matches(e.r.vol, e.s.vol, x), "vol", [res |-> x.r, data |-> x.st.data, pos |-> x.st.pos])
              /\ Judge(Twin(e), "twin", [std |-> e.r.std, stdstate |-> e.s.std])
              /\ Guard(Matches(e.r.std, e.s.std, x), "std", [res |-> x.r, data |-> x.st.data, pos |-> x.st.pos])
              /\ st' = [st EXCEPT !.data = e.s.vol.data, !.pos = e.s.vol.pos]
              /\ last' = [op |-> e.op, a |-> e.a, r |-> x.r]
    /\ l' = l + 1

TraceSpec == TraceInit /\ [][TraceNext]_tvars
Accepted ==
    LET d == TLCGet("stats").diameter IN
    IF d - 1 = Len(Rec) THEN TRUE ELSE Print(<<"UNMATCHED", d, ToJson(Rec[d])>>, FALSE)
=============================================================================
