\* test generation: every stream class, lengths on both sides of the 8-byte threshold, call sequences of 4 (thorough)
SPECIFICATION Spec
CONSTANTS
  WORD = 1024
  Streams0 <- StreamsMC
  BufLens = {0, 1, 8, 9}
  PosVals = {0, 9, 11}
ACTION_CONSTRAINT Emit
CONSTRAINT EmitInit
CONSTRAINT Depth5
VIEW View
CHECK_DEADLOCK FALSE
