SPECIFICATION Spec
CONSTANTS
  Cands <- CandsMC
  P = 2
  MaxRegs = 3
  MaxHandles = 6
  MaxCells = 1
  MaxOps = 7
  Addrs <- AddrsMC
  Lens = {1, 3, 6}
  IdSeqs <- IdSeqsMC
  Warm = 0
  Variant = "code"
INVARIANTS AllValid DirtySound DirtyInside
PROPERTIES Immutable Isolation NoResurrection
VIEW View
CHECK_DEADLOCK FALSE
