SPECIFICATION Spec
CONSTANTS
  Cands <- CandsS
  P = 2
  MaxRegs = 3
  MaxHandles = 5
  MaxCells = 1
  MaxOps = 5
  Addrs <- AddrsMC
  Lens = {1, 3, 6}
  IdSeqs <- IdSeqsMC
  Warm = 0
  Variant = "alias"
PROPERTIES Isolation
VIEW View
CHECK_DEADLOCK FALSE
