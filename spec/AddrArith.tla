----------------------------- MODULE AddrArith -----------------------------
(***************************************************************************)
(* Address arithmetic (C19): what `impl_address_ops!` and the provided     *)
(* methods of `Address` must compute, stated twice:                        *)
(*   Math*  the mathematically exact meaning on naturals below WORD        *)
(*   Impl*  the transcription of the code (checked_align_up: mask = p-1,   *)
(*          checked_add(mask) then & !mask; unchecked variants trap)       *)
(* and, on limb sequences (module Limbs), the same Math meaning for        *)
(* recorded 64-bit operands.  MC_AddrArith checks Impl = Math for every    *)
(* operand of a 256-value word and Limbs = Word arithmetic for small bases.*)
(***************************************************************************)
EXTENDS Word, Limbs, TLC

Some(v) == [k |-> "some", v |-> v]
NoneR   == [k |-> "none"]
OvfR(v, f) == [k |-> "ovf", v |-> v, f |-> f]
BoolR(b) == [k |-> "bool", v |-> b]
ValR(v) == [k |-> "val", v |-> v]
PanicR == [k |-> "panic"]

Pow2s == {p \in 1 .. WORD - 1 : \E e \in 0 .. 30 : p = 2 ^ e}

\* ---- exact meaning on naturals ------------------------------------------------
Math(op, a, b) ==
  CASE op = "checked_add"        -> IF a + b < WORD THEN Some(a + b) ELSE NoneR
    [] op = "overflowing_add"    -> OvfR((a + b) % WORD, a + b >= WORD)
    [] op = "unchecked_add"      -> IF a + b < WORD THEN ValR(a + b) ELSE PanicR      \* checked build
    [] op = "checked_sub"        -> IF a >= b THEN Some(a - b) ELSE NoneR
    [] op = "overflowing_sub"    -> OvfR((a - b + WORD) % WORD, a < b)
    [] op = "unchecked_sub"      -> IF a >= b THEN ValR(a - b) ELSE PanicR
    [] op = "checked_offset_from" -> IF a >= b THEN Some(a - b) ELSE NoneR
    [] op = "unchecked_offset_from" -> IF a >= b THEN ValR(a - b) ELSE PanicR
    [] op = "checked_align_up"   ->     \* least multiple of b (a power of two) that is not below a
         IF b \notin Pow2s THEN PanicR
         ELSE LET m == IF a % b = 0 THEN a ELSE a - (a % b) + b IN IF m < WORD THEN Some(m) ELSE NoneR
    [] op = "unchecked_align_up" ->
         IF b \notin Pow2s THEN [k |-> "any"]
         ELSE LET m == IF a % b = 0 THEN a ELSE a - (a % b) + b IN IF m < WORD THEN ValR(m) ELSE PanicR
    [] op = "mask"               -> ValR(a & b)
    [] op = "bitand"             -> ValR(a & b)
    [] op = "bitor"              -> ValR(a | b)
    [] op = "lt"                 -> BoolR(a < b)
    [] op = "eq"                 -> BoolR(a = b)
    [] op = "raw"                -> ValR(a)

\* ---- the code as written -------------------------------------------------------
ImplAlignUp(a, p) ==         \* checked_align_up
    IF p = 0 THEN PanicR                              \* assert_ne!(power_of_two, 0) (p - 1 underflows first)
    ELSE LET mask == p - 1 IN
         IF (p & mask) # 0 THEN PanicR               \* assert_eq!(power_of_two & mask, 0)
         ELSE LET s == CheckedAdd(a, mask) IN
              IF s = NONE THEN NoneR ELSE Some(s & ((WORD - 1) - mask))
Impl(op, a, b) ==
  CASE op = "checked_align_up" -> ImplAlignUp(a, b)
    [] op = "unchecked_align_up" ->
         IF b = 0 THEN PanicR
         ELSE LET mask == b - 1
                  s == UAdd(a, mask) IN
              IF s = TRAP THEN PanicR ELSE ValR(s & ((WORD - 1) - mask))
    [] op = "mask" -> ValR(a & b)
    [] OTHER -> Math(op, a, b)             \* delegated to the primitive integer operations

BinOps == {"checked_add", "overflowing_add", "unchecked_add", "checked_sub", "overflowing_sub", "unchecked_sub",
           "checked_offset_from", "unchecked_offset_from", "mask", "bitand", "bitor", "lt", "eq"}
AlignOps == {"checked_align_up", "unchecked_align_up"}

\* ---- the same meaning on limb sequences (for recorded 64-bit values) ------------
LMathAlign(a, p) ==    \* <<limbs, overflowed>> of the least multiple of p not below a
    LET mask == LSub(p, LOne)[1]
        rem  == LAnd(a, mask)
    IN  IF rem = LZero THEN <<a, FALSE>> ELSE LAdd(LSub(a, rem)[1], p)
LMath(op, a, b) ==
  CASE op = "checked_add"        -> LET s == LAdd(a, b) IN IF s[2] THEN NoneR ELSE Some(s[1])
    [] op = "overflowing_add"    -> LET s == LAdd(a, b) IN OvfR(s[1], s[2])
    [] op = "unchecked_add"      -> LET s == LAdd(a, b) IN IF s[2] THEN PanicR ELSE ValR(s[1])
    [] op \in {"checked_sub", "checked_offset_from"} -> LET s == LSub(a, b) IN IF s[2] THEN NoneR ELSE Some(s[1])
    [] op = "overflowing_sub"    -> LET s == LSub(a, b) IN OvfR(s[1], s[2])
    [] op \in {"unchecked_sub", "unchecked_offset_from"} -> LET s == LSub(a, b) IN IF s[2] THEN PanicR ELSE ValR(s[1])
    [] op = "checked_align_up"   -> IF ~LIsPow2(b) THEN PanicR
                                    ELSE LET m == LMathAlign(a, b) IN IF m[2] THEN NoneR ELSE Some(m[1])
    [] op = "unchecked_align_up" -> IF ~LIsPow2(b) THEN [k |-> "any"]
                                    ELSE LET m == LMathAlign(a, b) IN IF m[2] THEN PanicR ELSE ValR(m[1])
    [] op \in {"mask", "bitand"} -> ValR(LAnd(a, b))
    [] op = "bitor"              -> ValR(LOr(a, b))
    [] op = "lt"                 -> BoolR(LLt(a, b))
    [] op = "eq"                 -> BoolR(a = b)
    [] op = "raw"                -> ValR(a)
=============================================================================
