------------------------------ MODULE Bitmap ------------------------------
(***************************************************************************)
(* The dirty-page bitmap (AtomicBitmap, AtomicBitmapArc, Option<..>, and   *)
(* RefSlice/ArcSlice views of them) as a SET OF PAGE NUMBERS (C09).        *)
(*                                                                         *)
(* State: two bitmap handles (1 = the bitmap under test, 2 = its clone,    *)
(* dead until `clone` is called).  A handle is                             *)
(*     [live, bs (byte size), ps (page size), dirty (set of page numbers), *)
(*      tr (tracked?)]                                                     *)
(* tr = FALSE is the untracked flavour of the Bitmap trait: `()` and the   *)
(* `None` of Option<B>.  Only the trait operations exist on it; marking    *)
(* is a no-op, every query answers "clean", slicing yields another         *)
(* untracked bitmap.                                                       *)
(* The three ways of making a bitmap are one Init: new(bs, ps) as given,   *)
(* NewBitmap::with_len(bs) = new(bs, host page size) and Default =         *)
(* new(0, 4096); the recorded init event says which route the executor     *)
(* took (`via`) and the specification is told (bs, ps) only, so a route    *)
(* that builds another geometry fails the state comparison of its init.    *)
(* Every public operation is one named action; each action is defined      *)
(* through the pure operator Apply(bm, op, a) so that the trace            *)
(* specification (Trace_Bitmap) can re-use exactly the same definitions    *)
(* on logged arguments.                                                    *)
(*                                                                         *)
(* The abstract meaning of a byte range is Pages(..): the pages of the     *)
(* bitmap that [s, s+l) /\ [0, WORD) overlaps.  ImplRange(..) transcribes  *)
(* set_reset_addr_range (first_bit..=last_bit with saturating_add and the  *)
(* `break` at size); MC_Bitmap checks ImplRange = Pages for every          *)
(* argument of the small word.                                             *)
(***************************************************************************)
EXTENDS PageSet, FiniteSets, Sequences, TLC

CONSTANTS InitBS,      \* byte sizes given to AtomicBitmap::new
          InitPS,      \* page sizes (non-zero)
          AddrVals,    \* start addresses / offsets tried
          LenVals,     \* lengths tried
          IdxVals,     \* bit indices tried
          EnlVals,     \* enlarge() increments tried
          BaseVals,    \* slice_at() bases tried
          SOffVals,    \* offsets tried through slices
          SLenVals,    \* lengths tried through slices
          MaxBS,       \* state constraint: largest byte size explored
          Handles,     \* handles operations may address ({1} or {1,2})
          AllowClone,  \* whether the clone action is explored
          WB           \* bits per storage word (64 in the code)

VARIABLES bm, last
vars == <<bm, last>>

Dead == [live |-> FALSE, bs |-> 0, ps |-> 1, dirty |-> {}, tr |-> TRUE]
Fresh(bs, ps) == [live |-> TRUE, bs |-> bs, ps |-> ps, dirty |-> {}, tr |-> TRUE]
Untracked(ps) == [live |-> TRUE, bs |-> 0, ps |-> ps, dirty |-> {}, tr |-> FALSE]

NP(b) == DivCeil(b.bs, b.ps)                 \* number of pages ( = len() )
NW(b) == DivCeil(NP(b), WB)                  \* number of storage words

PageOf(b, addr) == addr \div b.ps

\* ---- pure step function -------------------------------------------------
\* result record: [bm |-> new handle table, r |-> observable result]
Upd(t, h, d) == [t EXCEPT ![h].dirty = d]
Res(t, r) == [bm |-> t, r |-> r]
Unit == [k |-> "unit"]                     \* results are tagged records, as the harness logs them
Bool(v) == [k |-> "bool", v |-> v]

SliceAddr(a) == WrapAdd(WrapAdd(a.b1, a.b2), a.off)   \* slice_at(b1).slice_at(b2) then off

Apply(t, op, a) ==
  LET b == t[a.h] IN
  CASE op = "set_range"   -> Res(Upd(t, a.h, b.dirty \cup Pages(NP(b), b.ps, a.s, a.l)), Unit)
    [] op = "reset_range" -> Res(Upd(t, a.h, b.dirty \ Pages(NP(b), b.ps, a.s, a.l)), Unit)
    [] op = "set_bit"     -> Res(Upd(t, a.h, IF a.i < NP(b) THEN b.dirty \cup {a.i} ELSE b.dirty), Unit)
    [] op = "reset_bit"   -> Res(Upd(t, a.h, b.dirty \ {a.i}), Unit)
    [] op = "get_and_reset" -> Res(Upd(t, a.h, {}), [k |-> "pages", pages |-> b.dirty, words |-> NW(b)])
    [] op = "reset"       -> Res(Upd(t, a.h, {}), Unit)
    [] op = "clone"       -> Res([t EXCEPT ![2] = b], Unit)
    [] op = "enlarge"     -> Res([t EXCEPT ![a.h].bs = b.bs + a.add], Unit)
    \* Bitmap::mark_dirty / dirty_at called on the bitmap object itself
    \* (an untracked handle has bs = 0, hence NP = 0 and Pages(..) = {}: marking it is a no-op by construction)
    [] op = "mark_dirty"  -> Res(Upd(t, a.h, b.dirty \cup Pages(NP(b), b.ps, a.s, a.l)), Unit)
    [] op = "dirty_at"    -> Res(t, Bool(PageOf(b, a.addr) \in b.dirty))
    [] op = "is_bit_set"  -> Res(t, Bool(a.i \in b.dirty))
    [] op = "is_addr_set" -> Res(t, Bool(PageOf(b, a.addr) \in b.dirty))
    \* the Bitmap trait, through a chain of two slice_at() calls
    [] op = "slice_mark"  -> Res(Upd(t, a.h, b.dirty \cup Pages(NP(b), b.ps, SliceAddr(a), a.l)), Unit)
    [] op = "slice_dirty_at" -> Res(t, Bool(PageOf(b, SliceAddr(a)) \in b.dirty))

\* ---- actions -------------------------------------------------------------
Step(op, a) ==
    LET x == Apply(bm, op, a)
    IN  /\ bm' = x.bm
        /\ last' = [op |-> op, a |-> a, r |-> x.r]

LiveAny == {h \in Handles : bm[h].live}          \* trait operations: every flavour
Live == {h \in LiveAny : bm[h].tr}                \* inherent AtomicBitmap operations: tracked handles only

SetRange   == \E h \in Live, s \in AddrVals, l \in LenVals : Step("set_range",   [h |-> h, s |-> s, l |-> l])
ResetRange == \E h \in Live, s \in AddrVals, l \in LenVals : Step("reset_range", [h |-> h, s |-> s, l |-> l])
SetBit     == \E h \in Live, i \in IdxVals : Step("set_bit",   [h |-> h, i |-> i])
ResetBit   == \E h \in Live, i \in IdxVals : Step("reset_bit", [h |-> h, i |-> i])
GetAndReset == \E h \in Live : Step("get_and_reset", [h |-> h])
Reset      == \E h \in Live : Step("reset", [h |-> h])
Clone      == AllowClone /\ bm[1].live /\ Step("clone", [h |-> 1])
MarkDirty  == \E h \in LiveAny, s \in AddrVals, l \in LenVals : Step("mark_dirty", [h |-> h, s |-> s, l |-> l])
DirtyAt    == \E h \in LiveAny, x \in AddrVals : Step("dirty_at", [h |-> h, addr |-> x])
Enlarge    == \E h \in Live, add \in EnlVals :
                 /\ bm[h].bs + add <= MaxBS     \* management call; overflow here is a caller bug
                 /\ Step("enlarge", [h |-> h, add |-> add])
IsBitSet   == \E h \in Live, i \in IdxVals : Step("is_bit_set", [h |-> h, i |-> i])
IsAddrSet  == \E h \in Live, x \in AddrVals : Step("is_addr_set", [h |-> h, addr |-> x])
SliceMark  == \E h \in LiveAny, b1 \in BaseVals, b2 \in BaseVals, o \in SOffVals, l \in SLenVals :
                 Step("slice_mark", [h |-> h, b1 |-> b1, b2 |-> b2, off |-> o, l |-> l])
SliceDirtyAt == \E h \in LiveAny, b1 \in BaseVals, b2 \in BaseVals, o \in SOffVals :
                 Step("slice_dirty_at", [h |-> h, b1 |-> b1, b2 |-> b2, off |-> o])

Init == \/ \E bs \in InitBS, ps \in InitPS :
           /\ bm = <<Fresh(bs, ps), Dead>>
           /\ last = [op |-> "init", a |-> [bs |-> bs, ps |-> ps, tr |-> TRUE], r |-> Unit]
        \/ \E ps \in InitPS :                                  \* `()` / None: no size, never dirty
           /\ bm = <<Untracked(ps), Dead>>
           /\ last = [op |-> "init", a |-> [bs |-> 0, ps |-> ps, tr |-> FALSE], r |-> Unit]

Next == \/ SetRange \/ ResetRange \/ SetBit \/ ResetBit \/ GetAndReset \/ Reset
        \/ Clone \/ Enlarge \/ IsBitSet \/ IsAddrSet \/ SliceMark \/ SliceDirtyAt
        \/ MarkDirty \/ DirtyAt

Spec == Init /\ [][Next]_vars

\* ---- properties (C09) -----------------------------------------------------
\* no page index at or beyond the page count ever appears
InRange == \A h \in 1..2 : bm[h].dirty \subseteq 0 .. NP(bm[h]) - 1

\* the untracked flavours never report anything dirty, whatever was marked through them or their slices
UntrackedClean == \A h \in 1..2 : ~bm[h].tr => bm[h].dirty = {} /\ bm[h].bs = 0
UntrackedAnswers == (last.op \in {"dirty_at", "slice_dirty_at"} /\ ~bm[last.a.h].tr) => last.r = Bool(FALSE)

\* fetch-and-clear returns the set and empties it; results never name a page >= len
HarvestExact == last.op = "get_and_reset" =>
                   /\ bm[last.a.h].dirty = {}
                   /\ last.r.pages \subseteq 0 .. NP(bm[last.a.h]) - 1

\* an operation on one handle leaves the other untouched (a clone is an independent copy),
\* enlarging keeps existing marks and adds only clean pages, queries change nothing
FrameOK ==
    [][ /\ last'.op # "clone" => \A h \in 1..2 : h # last'.a.h => bm'[h] = bm[h]
        /\ last'.op = "clone" => bm'[1] = bm[1] /\ bm'[2] = bm[1]
        /\ last'.op = "enlarge" => bm'[last'.a.h].dirty = bm[last'.a.h].dirty
        /\ last'.op \in {"is_bit_set", "is_addr_set", "slice_dirty_at", "dirty_at"} => bm' = bm ]_vars

\* marking adds exactly the overlapped pages; clearing removes exactly them
RangeExact ==
    [][ /\ last'.op \in {"set_range", "mark_dirty"} =>
             LET h == last'.a.h IN
             bm'[h].dirty = bm[h].dirty \cup
                 {p \in 0 .. NP(bm[h]) - 1 :
                    \E x \in 0 .. WORD - 1 :
                       x >= last'.a.s /\ x - last'.a.s < last'.a.l /\ x \div bm[h].ps = p}
        /\ last'.op = "reset_range" =>
             LET h == last'.a.h IN
             bm'[h].dirty = bm[h].dirty \
                 {p \in 0 .. NP(bm[h]) - 1 :
                    \E x \in 0 .. WORD - 1 :
                       x >= last'.a.s /\ x - last'.a.s < last'.a.l /\ x \div bm[h].ps = p} ]_vars

\* what MC uses to hide the label variable
View == bm
=============================================================================
