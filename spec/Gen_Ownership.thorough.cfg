\* test generation: every history of up to 7 operations over 2 mappings and 5 slots
SPECIFICATION Spec
CONSTANTS
  Kinds = {"owned", "raw", "failed_build", "failed_wrap"}
  MaxMaps = 2
  MaxSlots = 6
  MaxOps = 7
ACTION_CONSTRAINT Emit
CONSTRAINT EmitInit
CONSTRAINT Bounded
VIEW View
CHECK_DEADLOCK FALSE
