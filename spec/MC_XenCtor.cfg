\* every combination of sizes / file lengths / offsets around the end-of-file and overflow boundaries,
\* all 32 mapping-type flag words, both builds
SPECIFICATION Spec
CONSTANTS
  WORD = 1073741824
  Sizes = {0, 1, 4095, 4096, 4097, 8192}
  FLens = {0, 4096, 8192, 8193}
  FOffs = {0, 1, 4096, 8192, 1073737728, 1073741823}
INVARIANTS ExactlySafe ErrInSet FlagTable BuildsWhatWasAsked
CHECK_DEADLOCK FALSE
