\* every interleaving of the atomic steps of 2..3 threads; 8 pages in 2 words of 4 bits
SPECIFICATION Spec
CONSTANTS
  WB = 4
  NP = 8
  Scenarios <- ScenariosMC
  Split = FALSE
INVARIANTS NoLostMark EveryMarkCounts NoPhantom NoStray InRange
CHECK_DEADLOCK FALSE
