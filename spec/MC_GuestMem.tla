---------------------------- MODULE MC_GuestMem ----------------------------
(* Model-checking / test-generation wrapper around GuestMem (TLC only).     *)
EXTENDS GuestMem, Json

CONSTANTS LemmaAS,     \* address-space size for the refinement lemmas (= WORD in MC configs, 0 = skip)
          LemmaML,     \* largest region length in the lemma universe
          GenAS        \* address universe of generated layouts

\* all regions <<start, len>> with start + len <= lim
RegSet(as, ml, lim) == {r \in {<<s, n>> : s \in 0 .. as - 1, n \in 1 .. ml} : r[1] + r[2] <= lim}
L1(R) == {<<r>> : r \in R}
L2(R) == {p \in {<<a, b>> : a \in R, b \in R} : p[1][1] + p[1][2] <= p[2][1]}
L3(R) == {p \in {<<a, b, c>> : a \in R, b \in R, c \in R} :
             p[1][1] + p[1][2] <= p[2][1] /\ p[2][1] + p[2][2] <= p[3][1]}

\* what GuestRegionMmap::new permits: base + size <= 2^64 - 1 (no region contains the top address)
LayMmap(as, ml) == LET R == RegSet(as, ml, as - 1) IN {<<>>} \cup L1(R) \cup L2(R) \cup L3(R)
\* any backend: a region may end exactly at the top of the address space
LayTop(as, ml)  == LET R == RegSet(as, ml, as) IN {<<>>} \cup L1(R) \cup L2(R) \cup L3(R)

\* --- refinement lemmas (constant level, evaluated once) ---
FindLemma == \A lay \in LayMmap(LemmaAS, LemmaML), a \in 0 .. LemmaAS - 1 :
                ImplFind(MkRegs(lay), a) = Owner(MkRegs(lay), a)
TALemma   == \A lay \in LayTop(LemmaAS, LemmaML), a \in 0 .. LemmaAS - 1, c \in 1 .. LemmaAS - 1 :
                TA(MkRegs(lay), a, 0, c) = UpTo(MkRegs(lay), a, c)
TAZero    == \A lay \in LayTop(LemmaAS, LemmaML), a \in 0 .. LemmaAS - 1 :
                TA(MkRegs(lay), a, 0, 0) = IF Owner(MkRegs(lay), a) = 0 THEN Err("InvalidGuestAddress") ELSE OkN(0)
ASSUME FindLemma
ASSUME TALemma
ASSUME TAZero

\* layouts for the state machine / test generation
LayGen2 == LET R == RegSet(GenAS, 3, GenAS) IN {<<>>} \cup L1(R) \cup L2(R)
LayGen3 == LayTop(GenAS, 3)
LayMC   == LayTop(LemmaAS, LemmaML)
\* layouts for the scripted-stream configurations: touching regions, a hole, a target ending in a hole
LayC14  == { << <<0, 2>>, <<2, 3>> >>, << <<1, 3>>, <<5, 2>> >>, << <<0, 4>> >>, << <<2, 2>>, <<4, 2>>, <<7, 1>> >> }

\* scripts of stream behaviours (C14): all scripts up to a length over the alphabet
Alpha == {[b |-> "full"], [b |-> "zero"], [b |-> "eintr"], [b |-> "err"], [b |-> "short", k |-> 1], [b |-> "short", k |-> 2]}
ScriptsNone == {}
ScriptsUpTo(n) == UNION {[1 .. k -> Alpha] : k \in 0 .. n}
Scripts2 == ScriptsUpTo(2)
Scripts3 == ScriptsUpTo(3)
Scripts4 == ScriptsUpTo(4)

Emit == PrintT(<<"EDGE", ToJson([f |-> st, act |-> last', t |-> st'])>>)
EmitInit == (last.op = "init") => PrintT(<<"INIT", ToJson([t |-> st, act |-> last])>>)
=============================================================================
