\* design check: try_access and find_region refine the flat-array semantics for every layout of an
\* 8-address space (regions may end at the very top), plus the state machine over those layouts
SPECIFICATION Spec
CONSTANTS
  WORD = 8
  LemmaAS = 8
  LemmaML = 3
  GenAS = 8
  Layouts <- LayMC
  Backends = {"custom"}
  PVals = {2}
  AddrVals = {0, 1, 2, 3, 4, 5, 6, 7}
  CntVals = {0, 1, 2, 3, 7}
  BufLens = {0, 1, 2, 4, 7}
  EszVals = {0, 1, 2, 4}
  AtomVals = {1, 2, 4}
  Scripts <- ScriptsNone
  WrapArm = FALSE
PROPERTIES FrameG DirtySoundG LayoutFixed
VIEW View
CHECK_DEADLOCK FALSE
