----------------------------- MODULE CopyWidth -----------------------------
(***************************************************************************)
(* Which primitive memory accesses the byte-copy helper issues (C06).      *)
(* Accesses(total, s, d) transcribes copy_slice / copy_slice_volatile /    *)
(* alignment(): for total <= 8 a descending loop over widths 8, 4, 2, 1    *)
(* limited by the common alignment of source and destination address; for  *)
(* larger totals one bulk copy.  The property: a transfer of 1, 2, 4 or 8  *)
(* bytes between addresses aligned to that size is ONE access of that      *)
(* width; with one writer flipping a value and one reader, such a transfer *)
(* can only ever observe the old or the new value.                         *)
(***************************************************************************)
EXTENDS Naturals, Sequences, FiniteSets, TLC

CONSTANTS Totals,     \* transfer lengths explored
          Addrs       \* (non-zero) source / destination addresses explored: every residue modulo 8

Min2(a, b) == IF a <= b THEN a ELSE b
\* largest power of two (capped at 8 here: larger alignment never matters) dividing a non-zero address
Alignment(a) == IF a % 8 = 0 THEN 8 ELSE IF a % 4 = 0 THEN 4 ELSE IF a % 2 = 0 THEN 2 ELSE 1

\* the descending-width loop: for each width in turn, copy while at least `width` bytes are left
RECURSIVE Descend(_, _, _, _)
Descend(ws, al, left, off) ==
    IF ws = <<>> THEN <<>>
    ELSE LET wd == Head(ws) IN
         IF al >= wd /\ left >= wd
         THEN <<[w |-> wd, off |-> off]>> \o Descend(ws, al, left - wd, off + wd)
         ELSE Descend(Tail(ws), al, left, off)

Accesses(total, s, d) ==
    IF total > 8 THEN <<[w |-> 0, off |-> 0, bulk |-> total]>>
    ELSE Descend(<<8, 4, 2, 1>>, Min2(Alignment(s), Alignment(d)), total, 0)

\* ---- what C06 demands ------------------------------------------------------
IsSingle(total, s, d) == total \in {1, 2, 4, 8} /\ s % total = 0 /\ d % total = 0
Single(total, s, d) == IsSingle(total, s, d) => Accesses(total, s, d) = <<[w |-> total, off |-> 0]>>
\* the accesses tile [0, total) in order and each is aligned to its width on both sides
Tiles(total, s, d) ==
    LET acc == Accesses(total, s, d) IN
    total <= 8 =>
      /\ \A i \in 1 .. Len(acc) : (s + acc[i].off) % acc[i].w = 0 /\ (d + acc[i].off) % acc[i].w = 0
      /\ \A i \in 1 .. Len(acc) : acc[i].off = (IF i = 1 THEN 0 ELSE acc[i - 1].off + acc[i - 1].w)
      /\ (IF Len(acc) = 0 THEN 0 ELSE acc[Len(acc)].off + acc[Len(acc)].w) = total

\* ---- one writer flipping a value, one reader (all interleavings of their primitive accesses) -------
VARIABLES cfg,      \* [total, s, d] chosen at Init
          guest,    \* the guest bytes: "old" or "new" per byte
          wpc, rpc, \* next access of the writer / reader
          seen      \* what the reader has read so far, per byte
vars == <<cfg, guest, wpc, rpc, seen>>

Acc == Accesses(cfg.total, cfg.s, cfg.d)
Range(a) == a.off + 1 .. a.off + a.w

Init == \E t \in Totals \ {0}, s \in Addrs, d \in Addrs :
          /\ t <= 8
          /\ cfg = [total |-> t, s |-> s, d |-> d]
          /\ guest = [i \in 1 .. t |-> "old"]
          /\ wpc = 1 /\ rpc = 1
          /\ seen = [i \in 1 .. t |-> "none"]
WStep == /\ wpc <= Len(Acc)
         /\ guest' = [i \in 1 .. cfg.total |-> IF i \in Range(Acc[wpc]) THEN "new" ELSE guest[i]]
         /\ wpc' = wpc + 1 /\ UNCHANGED <<cfg, rpc, seen>>
RStep == /\ rpc <= Len(Acc)
         /\ seen' = [i \in 1 .. cfg.total |-> IF i \in Range(Acc[rpc]) THEN guest[i] ELSE seen[i]]
         /\ rpc' = rpc + 1 /\ UNCHANGED <<cfg, guest, wpc>>
Next == WStep \/ RStep
Spec == Init /\ [][Next]_vars

ReadDone == rpc > Len(Acc)
NoTear == (ReadDone /\ IsSingle(cfg.total, cfg.s, cfg.d)) =>
             (\A i \in 1 .. cfg.total : seen[i] = "old") \/ (\A i \in 1 .. cfg.total : seen[i] = "new")
\* non-vacuity: without the alignment premise tearing IS reachable (used by the negative configuration)
NeverTears == ReadDone => (\A i \in 1 .. cfg.total : seen[i] = "old") \/ (\A i \in 1 .. cfg.total : seen[i] = "new")
=============================================================================
