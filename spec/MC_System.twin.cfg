SPECIFICATION Spec
CONSTANTS
  Cands <- CandsS
  P = 2
  MaxRegs = 3
  MaxHandles = 9
  MaxCells = 1
  MaxOps = 4
  Addrs <- AddrsQ
  Lens = {6}
  IdSeqs <- IdSeqsQ
  Warm = 2
  Variant = "code"
INVARIANTS AllValid DirtySound DirtyInside
PROPERTIES Immutable Isolation NoResurrection
VIEW View
CHECK_DEADLOCK FALSE
