----------------------------- MODULE MC_Bitmap -----------------------------
(* Model-checking / test-generation wrapper around Bitmap (TLC only).      *)
EXTENDS Bitmap, Json

\* The transcription of set_reset_addr_range agrees with the abstract page set
\* for every bitmap geometry and every (start, len) of the configured universe.
ImplLemma == \A bs \in InitBS, ps \in InitPS, s \in AddrVals, l \in LenVals :
                ImplRange(DivCeil(bs, ps), ps, s, l) = Pages(DivCeil(bs, ps), ps, s, l)
ASSUME ImplLemma

\* test generation: one line per explored transition
Emit == PrintT(<<"EDGE", ToJson([f |-> bm, act |-> last', t |-> bm'])>>)
EmitInit == (last.op = "init") => PrintT(<<"INIT", ToJson([t |-> bm, act |-> last])>>)
=============================================================================
