---------------------------- MODULE MC_AddrArith ----------------------------
(* TLC: Impl = Math for every operand pair of the word, and the limb library agrees with integer *)
(* arithmetic (WORD = LB^LK).  One state per (op, a, b); the state graph has no edges.           *)
EXTENDS AddrArith

VARIABLE last
ToL(v) == [i \in Idx |-> (v \div (LB ^ (i - 1))) % LB]
FromL(x) == LET S[i \in 0 .. LK] == IF i = 0 THEN 0 ELSE S[i - 1] + x[i] * (LB ^ (i - 1)) IN S[LK]
LiftR(r) == IF "v" \in DOMAIN r /\ r.k # "bool" THEN [r EXCEPT !.v = ToL(r.v)] ELSE r

Init == \E op \in BinOps \cup AlignOps, a \in 0 .. WORD - 1, b \in 0 .. WORD - 1 :
           last = [op |-> op, a |-> a, b |-> b]
Next == UNCHANGED last
Spec == Init /\ [][Next]_last

ImplIsMath == Impl(last.op, last.a, last.b) = Math(last.op, last.a, last.b)
             \/ Math(last.op, last.a, last.b).k = "any"
LimbsAreExact == LET m == Math(last.op, last.a, last.b) IN
                 m.k = "any" \/ LMath(last.op, ToL(last.a), ToL(last.b)) = LiftR(m)
RoundTrip == FromL(ToL(last.a)) = last.a
=============================================================================
