------------------------------ MODULE ScriptIO ------------------------------
(***************************************************************************)
(* Scripted streams (C14): the behaviour of an underlying reader / writer  *)
(* is a script, one element per underlying call:                           *)
(*    [b |-> "full"]          transfer everything asked for                *)
(*    [b |-> "short", k |-> k] transfer min(k, asked) bytes                *)
(*    [b |-> "zero"]          Ok(0): end of stream / sink takes nothing    *)
(*    [b |-> "eintr"]         fail with ErrorKind::Interrupted             *)
(*    [b |-> "err"]           fail with another error                      *)
(* an exhausted script behaves as "full".  The operators transcribe        *)
(* `retry_eintr!` and the default read_exact_volatile / write_all_volatile  *)
(* loops of src/io.rs.                                                     *)
(***************************************************************************)
EXTENDS Word, Sequences

ERR == -3     \* a hard error surfaced by the underlying call

\* one logical call (retry_eintr! around one underlying call) asking for m bytes:
\* [r |-> bytes moved or ERR, s |-> rest of the script]
RECURSIVE Call(_, _)
Call(s, m) ==
    IF s = <<>> THEN [r |-> m, s |-> <<>>]
    ELSE LET h == Head(s) IN
         IF h.b = "eintr" THEN Call(Tail(s), m)                         \* always retried, never reported
         ELSE IF h.b = "err" THEN [r |-> ERR, s |-> Tail(s)]
         ELSE IF h.b = "zero" THEN [r |-> 0, s |-> Tail(s)]
         ELSE IF h.b = "short" THEN [r |-> Min(h.k, m), s |-> Tail(s)]
         ELSE [r |-> m, s |-> Tail(s)]

\* the default exact loop: keep calling until `want` bytes moved, a zero-length transfer or an error
\* [done |-> bytes moved, res |-> "ok" | "zero" | "err", s |-> rest of the script]
RECURSIVE Exact(_, _, _)
Exact(s, want, done) ==
    IF want = 0 THEN [done |-> done, res |-> "ok", s |-> s]
    ELSE LET c == Call(s, want) IN
         IF c.r = ERR THEN [done |-> done, res |-> "err", s |-> c.s]
         ELSE IF c.r = 0 THEN [done |-> done, res |-> "zero", s |-> c.s]
         ELSE Exact(c.s, want - c.r, done + c.r)

\* the byte stream a scripted reader hands out: byte j (1-based)
SrcByte(j) == ((j - 1) % 250) + 1
SrcBytes(from, n) == [j \in 1 .. n |-> SrcByte(from + j)]
=============================================================================
