SPECIFICATION TraceSpec
CONSTANTS
  WORD = 16
  LB = 65536
  LK = 4
POSTCONDITION Accepted
CHECK_DEADLOCK FALSE
