------------------------------- MODULE Endian -------------------------------
(***************************************************************************)
(* Endian-tagged integers (C20).  A value is its sequence of NB "digits"   *)
(* (bytes) written most-significant first; the host stores a native        *)
(* integer least-significant byte first ("le") or most-significant first   *)
(* ("be").  The wrapper is modelled the way `endian_type!` builds it:      *)
(*   From<native>   stores  ToNew(v)            (to_le / to_be)            *)
(*   to_native()    returns FromNew(inner)      (from_le / from_be)        *)
(*   wrapper == x   compares inner with ToNew(x), both directions          *)
(* and the properties are stated on the BYTES the wrapper occupies.        *)
(***************************************************************************)
EXTENDS Naturals, Sequences, TLC

Rev(s) == [i \in 1 .. Len(s) |-> s[Len(s) + 1 - i]]

\* memory bytes (ascending addresses) of a native integer with digits v on the given host
Mem(v, host) == IF host = "le" THEN Rev(v) ELSE v
\* primitive conversions of the integer types, as functions of the host order
ToLe(v, host) == IF host = "le" THEN v ELSE Rev(v)
ToBe(v, host) == IF host = "be" THEN v ELSE Rev(v)
FromLe(v, host) == ToLe(v, host)
FromBe(v, host) == ToBe(v, host)

ToNew(order, v, host)   == IF order = "le" THEN ToLe(v, host) ELSE ToBe(v, host)
FromNew(order, v, host) == IF order = "le" THEN FromLe(v, host) ELSE FromBe(v, host)

\* the wrapper
Wrap(order, v, host)      == ToNew(order, v, host)                 \* inner integer after From::from(v)
WMem(order, v, host)      == Mem(Wrap(order, v, host), host)       \* bytes the wrapper occupies
ToNative(order, in, host) == FromNew(order, in, host)
WEq(order, in, x, host)   == in = ToNew(order, x, host)

\* what the declared byte order prescribes for value v
Declared(order, v) == IF order = "le" THEN Rev(v) ELSE v

\* ---- C20 --------------------------------------------------------------------
RoundTrip(order, v, host)  == ToNative(order, Wrap(order, v, host), host) = v
WireFormat(order, v, host) == WMem(order, v, host) = Declared(order, v)
EqExact(order, v, x, host) == WEq(order, Wrap(order, v, host), x, host) <=> (v = x)
=============================================================================
