\* 3 limbs of base 4: carries and borrows ripple through a middle limb
SPECIFICATION Spec
CONSTANTS
  WORD = 64
  LB = 4
  LK = 3
INVARIANTS ImplIsMath LimbsAreExact RoundTrip
CHECK_DEADLOCK FALSE
