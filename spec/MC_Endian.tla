------------------------------ MODULE MC_Endian ------------------------------
(* every value of NB digits over a small digit base, both byte orders, both hosts *)
EXTENDS Endian
CONSTANTS NB, Digits
VARIABLE last
Vals == [1 .. NB -> Digits]
Init == \E o \in {"le", "be"}, h \in {"le", "be"}, v \in Vals, x \in Vals : last = [order |-> o, host |-> h, v |-> v, x |-> x]
Next == UNCHANGED last
Spec == Init /\ [][Next]_last
Holds == /\ RoundTrip(last.order, last.v, last.host)
         /\ WireFormat(last.order, last.v, last.host)
         /\ EqExact(last.order, last.v, last.x, last.host)
=============================================================================
