SPECIFICATION Spec
CONSTANTS
  NB = 3
  Digits = {0, 1, 2, 3}
INVARIANT Holds
CHECK_DEADLOCK FALSE
