----------------------------- MODULE Trace_Unmap -----------------------------
(* System calls of the executor (strace), attributed to operations: <<"mmap", address id, file-backed>> and         *)
(* <<"munmap", address id, _>>.  `live` is the set of addresses at which a mapping currently starts, `filed` those     *)
(* that ever held a file-backed mapping (the executors back every mapping under test by a file).  A munmap of an       *)
(* address in `filed` at which nothing is mapped is a second unmapping of a mapping that is already gone - what         *)
(* Ownership.tla's UnmapOnce forbids.  (munmaps of addresses never seen as the start of a mapping are the allocator     *)
(* trimming its own arenas and are ignored.)                                                                            *)
EXTENDS Naturals, Sequences, FiniteSets, TLC, Json, IOUtils
Rec == ndJsonDeserialize(IOEnv.TRACE)
VARIABLES l, live, filed
tvars == <<l, live, filed>>
Judge(ok, tag, exp) == IF ok THEN TRUE ELSE PrintT(<<"MISMATCH", l, tag, ToJson(exp)>>)

RECURSIVE Fold(_, _, _)
Fold(s, calls, i) ==
    IF i > Len(calls) THEN s
    ELSE LET c == calls[i] IN
         IF c[1] = "mmap"
         THEN Fold([s EXCEPT !.live = @ \cup {c[2]}, !.filed = IF c[3] = 1 THEN @ \cup {c[2]} ELSE @], calls, i + 1)
         ELSE IF c[2] \in s.live THEN Fold([s EXCEPT !.live = @ \ {c[2]}], calls, i + 1)
         ELSE IF c[2] \in s.filed THEN Fold([s EXCEPT !.bad = @ \cup {c[2]}], calls, i + 1)
         ELSE Fold(s, calls, i + 1)

TraceInit == l = 1 /\ live = {} /\ filed = {}
TraceNext ==
    /\ l <= Len(Rec)
    /\ LET e == Rec[l]
           s == Fold([live |-> live, filed |-> filed, bad |-> {}], e.sys, 1) IN
       /\ Judge(s.bad = {}, "double_unmap", [addresses |-> s.bad, operation |-> e.op])
       /\ live' = s.live /\ filed' = s.filed
    /\ l' = l + 1
TraceSpec == TraceInit /\ [][TraceNext]_tvars
Accepted ==
    LET d == TLCGet("stats").diameter IN
    IF d - 1 = Len(Rec) THEN TRUE ELSE Print(<<"UNMATCHED", d, ToJson(Rec[d])>>, FALSE)
=============================================================================
