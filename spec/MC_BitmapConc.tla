--------------------------- MODULE MC_BitmapConc ---------------------------
EXTENDS BitmapConc
Mark(S) == [k |-> "mark", pages |-> S]
Unmark(S) == [k |-> "unmark", pages |-> S]
Harvest == [k |-> "harvest"]
Reset == [k |-> "reset"]
Clone == [k |-> "clone"]
\* pages 2,3 | 4,5 straddle the boundary between word 0 and word 1 when WB = 4
ScenariosMC == {
    << <<Mark({0, 1, 2})>>, <<Harvest, Mark({2})>> >>,
    << <<Mark({3, 4})>>, <<Harvest>>, <<Mark({5})>> >>,
    << <<Mark({1})>>, <<Mark({2})>>, <<Harvest>> >>,
    << <<Mark({1, 2})>>, <<Unmark({2, 3})>>, <<Harvest>> >>,
    << <<Mark({0}), Clone>>, <<Harvest, Mark({0})>> >>,
    << <<Mark({3}), Mark({4})>>, <<Harvest, Harvest>> >>,
    << <<Mark({2, 3, 4, 5})>>, <<Reset>>, <<Mark({3})>> >>,
    << <<Mark({7, 8})>>, <<Harvest>> >>,       \* page 8 is beyond the bitmap: ignored
    << <<Mark({1}), Mark({1})>>, <<Harvest>> >>  \* the same page marked twice around a harvest: both marks count
}
ScenariosThorough == ScenariosMC \cup {
    << <<Mark({2, 3, 4}), Mark({0})>>, <<Harvest, Mark({4}), Harvest>> >>,
    << <<Mark({2, 3, 4, 5})>>, <<Harvest, Harvest>>, <<Unmark({3, 4}), Mark({3})>> >>,
    << <<Mark({0, 1, 2, 3, 4, 5})>>, <<Harvest>>, <<Mark({3, 4, 5})>> >>,
    << <<Mark({3}), Unmark({3}), Mark({3})>>, <<Harvest, Clone>>, <<Mark({4})>> >>,
    << <<Mark({1}), Mark({2}), Mark({3})>>, <<Harvest, Harvest>>, <<Mark({1}), Harvest>> >>,
    << <<Mark({2, 3})>>, <<Clone, Harvest>>, <<Reset, Mark({4})>> >>
}
=============================================================================
