\* test generation: bitmap plus clone, operations on either handle (independence of the copy)
\* (WORD is large here so that no sum wraps: these tests are replayed with the identity mapping)
SPECIFICATION Spec
CONSTANTS
  WORD = 1024
  WB = 64
  InitBS = {0, 1, 3, 4}
  InitPS = {1, 3}
  AddrVals = {0, 1, 3, 7}
  LenVals = {0, 1, 2, 7}
  IdxVals = {0, 1, 3, 4}
  EnlVals = {1}
  BaseVals = {0, 7}
  SOffVals = {0, 2}
  SLenVals = {1, 7}
  MaxBS = 4
  Handles = {1, 2}
  AllowClone = TRUE
INVARIANTS InRange
ACTION_CONSTRAINT Emit
CONSTRAINT EmitInit
VIEW View
CHECK_DEADLOCK FALSE
