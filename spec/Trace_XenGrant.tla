---------------------------- MODULE Trace_XenGrant ----------------------------
EXTENDS XenGrant, Json, IOUtils
CONSTANT Check    \* subset of {"cover", "zero", "nopanic"}
Rec == ndJsonDeserialize(IOEnv.TRACE)
VARIABLES l, reg
Judge(ok, tag, exp) == IF ok THEN TRUE ELSE PrintT(<<"MISMATCH", l, tag, ToJson(exp)>>)
P == 4096
Maps(dev) == {i \in DOMAIN dev : dev[i].k = "map"}
Unmaps(dev) == {i \in DOMAIN dev : dev[i].k = "unmap"}
\* every map is followed by an unmap of the same window, one for one
Balanced(dev) == /\ Cardinality(Maps(dev)) = Cardinality(Unmaps(dev))
                 /\ \A i \in Maps(dev) : \E j \in Unmaps(dev) : j > i /\ dev[j].index = dev[i].index /\ dev[j].count = dev[i].count
CoveredBy(dev, base, o, n) == n = 0 \/ \E i \in Maps(dev) : dev[i].index <= base + o /\ base + o + n <= dev[i].index + dev[i].count * P
ZeroLen(e, t) == t.k = "ok" /\ t.n = 0

TraceInit == l = 1 /\ reg = [kind |-> "none", base |-> 0, size |-> 0] /\ x = [off |-> 0, len |-> 1, p |-> 1]
TraceNext ==
    /\ l <= Len(Rec)
    /\ LET e == Rec[l] IN
       CASE e.op = "init" ->
              /\ reg' = [kind |-> e.a.kind, base |-> e.a.base, size |-> e.a.size]
              /\ Judge("cover" \in Check => (e.r.k = "ok" /\ (e.a.kind = "ondemand" => Len(e.dev) = 0)), "init", [kind |-> e.a.kind])
         [] e.op = "drop" ->
              /\ Judge("cover" \in Check => (reg.kind = "ondemand" => Len(e.dev) = 0), "drop", [kind |-> reg.kind])
              /\ UNCHANGED reg
         [] OTHER ->
              LET t == Touch(e.op, e.a, reg.base, reg.size)
                  od == reg.kind = "ondemand"
                  during == IF e.op = "ptr_guard" /\ e.r.k = "ok" THEN e.r.during ELSE e.dev IN
              /\ UNCHANGED reg
              \* C17: result, coverage, release, data in guest RAM
              /\ Judge(("cover" \in Check /\ t.k # "any" /\ ~(t.k = "ok" /\ t.n = 0)) =>
                          /\ e.r.k = t.k
                          /\ (t.k = "ok" => /\ e.r.n = t.n
                                            /\ (od => CoveredBy(during, reg.base, t.o, t.n))
                                            /\ (od /\ t.o2 >= 0 => CoveredBy(during, reg.base, t.o2, t.n))
                                            /\ (t.w => SubSeq(e.after, 1, t.n) = SubSeq(e.a[IF "buf" \in DOMAIN e.a THEN "buf" ELSE "src"], 1, t.n))
                                            /\ ("data" \in DOMAIN e.r => e.r.data = SubSeq(e.before, 1, t.n))),
                       "cover", [expected |-> t])
              /\ Judge("cover" \in Check => ((od => Balanced(during \o (IF e.op = "ptr_guard" /\ e.r.k = "ok" THEN e.dev ELSE <<>>)))
                                              /\ (~od => Len(e.dev) = 0)), "release", [dev |-> e.dev])
              \* C18 on Xen regions: zero-length accesses succeed and leave no mapping behind
              /\ Judge(("zero" \in Check /\ ZeroLen(e, t)) => (e.r.k = "ok" /\ (od => Balanced(during \o (IF e.op = "ptr_guard" /\ e.r.k = "ok" THEN e.dev ELSE <<>>))) /\ e.after = e.before), "zero", [expected |-> t])
              \* C07
              /\ Judge("nopanic" \in Check => e.r.k \notin {"panic", "signal"}, "nopanic", [expected |-> t])
    /\ l' = l + 1
    /\ UNCHANGED x
TraceSpec == TraceInit /\ [][TraceNext]_<<l, reg, x>>
Accepted ==
    LET d == TLCGet("stats").diameter IN
    IF d - 1 = Len(Rec) THEN TRUE ELSE Print(<<"UNMATCHED", d, ToJson(Rec[d])>>, FALSE)
=============================================================================
