SPECIFICATION TraceSpec
CONSTANTS
  WORD = 16
  LB = 16
  LK = 2
POSTCONDITION Accepted
CHECK_DEADLOCK FALSE
