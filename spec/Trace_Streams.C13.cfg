SPECIFICATION TraceSpec
CONSTANTS
  WORD = 1073741824
  Streams0 = {}
  BufLens = {0}
  PosVals = {0}
POSTCONDITION Accepted
CHECK_DEADLOCK FALSE
