SPECIFICATION GSpec
CONSTANTS
  Cands <- CandsMC
  P = 2
  MaxRegs = 5
  MaxHandles = 12
  MaxCells = 2
  MaxOps = 14
  Addrs <- AddrsSim
  Lens = {1, 3, 6}
  IdSeqs <- IdSeqsSim
  Warm = 0
  Variant = "code"
INVARIANT Emit
CHECK_DEADLOCK FALSE
