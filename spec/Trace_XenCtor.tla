---------------------------- MODULE Trace_XenCtor ----------------------------
(* Every row replayed on the real constructors: standard build (op "build") and Xen build (op "from_range"). *)
EXTENDS XenCtor, Json, IOUtils
Rec == ndJsonDeserialize(IOEnv.TRACE)
VARIABLE l
Judge(ok, tag, exp) == IF ok THEN TRUE ELSE PrintT(<<"MISMATCH", l, tag, ToJson(exp)>>)

UReq(a) == [kind |-> a.kind, size |-> a.size, flen |-> a.flen, foff |-> a.foff, fixed |-> a.fixed, misalign |-> a.misalign]
XReq(a) == [mflags |-> a.mflags, file |-> a.file, size |-> a.size, flen |-> a.flen, foff |-> a.foff, fixed |-> a.fixed, fail |-> a.fail]

TraceInit == l = 1 /\ req = [b |-> "unix", r |-> [kind |-> "anon", size |-> 1, flen |-> 0, foff |-> 0, fixed |-> FALSE, misalign |-> 0]]
TraceNext ==
    /\ l <= Len(Rec)
    /\ LET e == Rec[l] IN
       IF e.op = "race"
       THEN \* concurrent creations over one open file: all requests are safe, none may be refused (a sample of schedules)
            Judge(e.r.k = "ok" /\ e.r.refused = 0, "decision", [expected |-> "every request accepted"])
       ELSE IF e.op = "wrap"
       THEN LET d == WrapDecision(e.a.size, e.a.gbase) IN
            /\ Judge(d = "any" \/ e.r.k = d, "decision", [expected |-> d])
            /\ Judge((d = "ok" /\ e.r.k = "ok") => (e.r.start = e.a.gbase /\ e.r.len = e.a.size /\ e.r.last = e.a.gbase + e.a.size - 1
                                                    /\ (e.a.api = "from_range_anon" \/ e.r.mapped >= e.a.size)),
                     "attributes", [expected |-> d])
            /\ Judge(e.r.k = "err" => e.r.left_mapped = 0, "left_behind", [expected |-> d])
       ELSE IF e.op = "build"
       THEN LET x == UnixBuild(UReq(e.a)) IN
            /\ Judge(e.r.k = x.k /\ (x.k = "err" => e.r.e \in UnixErrSet(UReq(e.a))), "decision", [expected |-> x])
            \* an accepted request builds what was asked
            /\ Judge(e.r.k = "ok" => /\ e.r.size = (IF e.a.kind = "raw" /\ e.a.size > 8192 THEN 8192 ELSE e.a.size)
                                     /\ e.r.owned = (e.a.kind # "raw")
                                     /\ e.r.prot = e.r.req_prot /\ e.r.flags = e.r.req_flags
                                     /\ e.r.has_file = (e.a.kind = "file") /\ (e.a.kind = "file" => e.r.foff = e.a.foff)
                                     /\ e.r.huge = (IF "huge" \in DOMAIN e.a THEN (IF e.a.huge THEN 1 ELSE 0) ELSE 2)   \* the hugetlbfs hint is reported back (2 = none)
                                     /\ ("coherent" \in DOMAIN e.r => e.r.coherent),
                     "attributes", [expected |-> x])
            \* a refused request leaves nothing mapped; an external mapping is never unmapped
            /\ Judge((e.r.k = "err" => e.r.left_mapped = 0) /\ e.r.raw_alive, "left_behind", [expected |-> x])
       ELSE LET x == XenBuild(XReq(e.a)) IN
            /\ Judge(e.a.badflags \/ (e.r.k = x.k /\ (x.k = "err" => e.r.e \in XenErrSet(XReq(e.a)))), "decision", [expected |-> x])
            /\ Judge((e.r.k = "ok" /\ ~e.a.badflags) => /\ e.r.size = e.a.size /\ e.r.xflags = e.a.mflags /\ e.r.xdata = 5
                                     /\ ("prot" \in DOMAIN e.a => e.r.prot = e.a.prot)      \* the protection asked for, PROT_NONE included
                                     /\ e.r.has_file = e.a.file /\ (e.a.file => e.r.foff = e.a.foff)
                                     /\ ("coherent" \in DOMAIN e.r => e.r.coherent),
                     "attributes", [expected |-> x])
            /\ Judge(e.r.k = "err" => (e.r.left_mapped = 0 /\ e.r.live_grants = 0), "left_behind", [expected |-> x])
    /\ l' = l + 1 /\ UNCHANGED req
TraceSpec == TraceInit /\ [][TraceNext]_<<l, req>>
Accepted ==
    LET d == TLCGet("stats").diameter IN
    IF d - 1 = Len(Rec) THEN TRUE ELSE Print(<<"UNMATCHED", d, ToJson(Rec[d])>>, FALSE)
=============================================================================
