--------------------------- MODULE Trace_AtomicMap ---------------------------
(***************************************************************************)
(* Judges executions of the real GuestMemoryAtomic recorded at the named   *)
(* schedule points of src/atomic.rs (load.before/after, lock.before/       *)
(* acquired, replace.before_store/after_store) plus the harness's own      *)
(* observation events.  Maps are identified by their content (set of       *)
(* region numbers; each update adds a fresh one).  Rules:                  *)
(*   mutex     lock.acquired only while nobody holds the lock (the holder  *)
(*             releases it some time after replace.after_store)            *)
(*   snapshot  what memory() returned is a map that was current at some    *)
(*             moment between load.before and load.after, whole and usable *)
(*   stable    every later look through the guard, a clone of it or the    *)
(*             owned Arc shows that same map, still readable               *)
(*   update    under the lock the updater reads the CURRENT map; after its *)
(*             store the current map is that map plus its region           *)
(*   final     the last map contains every region added by a completed     *)
(*             update                                                      *)
(***************************************************************************)
EXTENDS Naturals, FiniteSets, Sequences, TLC, Json, IOUtils

Rec == ndJsonDeserialize(IOEnv.TRACE)

VARIABLES l, cell, holder, canRelease, published, win, open, snaps, local, adding, added, pending
tvars == <<l, cell, holder, canRelease, published, win, open, snaps, local, adding, added, pending>>

ToSet(seq) == {seq[i] : i \in DOMAIN seq}
Judge(ok, tag, exp) == IF ok THEN TRUE ELSE PrintT(<<"MISMATCH", l, tag, ToJson(exp)>>)
T == 1 .. 8
Content(o) == ToSet(o.regs)
Usable(o) == o.ok /\ o.num = Len(o.regs)

TraceInit == /\ l = 1 /\ cell = {0} /\ holder = 0 /\ canRelease = FALSE /\ published = {{0}}
             /\ win = [t \in T |-> {}] /\ open = [t \in T |-> FALSE]
             /\ snaps = [t \in T |-> <<>>] /\ local = [t \in T |-> {}] /\ adding = [t \in T |-> 0] /\ added = {} /\ pending = {}

\* a store makes `n` a possible result of every load that is in progress
Widen(n) == [t \in T |-> IF open[t] THEN win[t] \cup {n} ELSE win[t]]

SetSnap(t, h, c) == [snaps EXCEPT ![t] = [i \in 1 .. (IF h > Len(snaps[t]) THEN h ELSE Len(snaps[t])) |->
                                            IF i = h THEN c ELSE IF i <= Len(snaps[t]) THEN snaps[t][i] ELSE {}]]

TraceNext ==
    /\ l <= Len(Rec)
    /\ LET e == Rec[l] IN
       CASE e.op = "init" ->
              /\ cell' = {0} /\ holder' = 0 /\ canRelease' = FALSE /\ published' = {{0}}
              /\ win' = [t \in T |-> {}] /\ open' = [t \in T |-> FALSE]
              /\ snaps' = [t \in T |-> <<>>] /\ local' = [t \in T |-> {}] /\ adding' = [t \in T |-> 0] /\ added' = {} /\ pending' = {}
         [] e.op = "final" ->
              /\ Judge(Content(e.a.obs) = cell /\ Usable(e.a.obs), "final_map", [cell |-> cell])
              /\ Judge(added \subseteq Content(e.a.obs), "lost_update", [added |-> added])
              /\ UNCHANGED <<cell, holder, canRelease, published, win, open, snaps, local, adding, added, pending>>
         [] e.op = "step" ->
              LET a == e.a
                  t == a.t
                  k == a.kind IN
              CASE k = "lock.acquired" ->
                     /\ Judge(holder = 0 \/ canRelease, "mutex", [holder |-> holder])
                     /\ holder' = t /\ canRelease' = FALSE
                     /\ UNCHANGED <<cell, published, win, open, snaps, local, adding, added, pending>>
                [] k = "load.before" ->
                     /\ win' = [win EXCEPT ![t] = {cell} \cup pending] /\ open' = [open EXCEPT ![t] = TRUE]
                     /\ UNCHANGED <<cell, holder, canRelease, published, snaps, local, adding, added, pending>>
                [] k = "load.after" ->
                     /\ open' = [open EXCEPT ![t] = FALSE]
                     /\ UNCHANGED <<cell, holder, canRelease, published, win, snaps, local, adding, added, pending>>
                [] k = "snap.end" ->
                     /\ Judge(Content(a.obs) \in win[t] /\ Content(a.obs) \in published /\ Usable(a.obs), "snapshot", [allowed |-> win[t]])
                     /\ snaps' = SetSnap(t, a.h, Content(a.obs))
                     /\ UNCHANGED <<cell, holder, canRelease, published, win, open, local, adding, added, pending>>
                [] k = "clone" ->
                     /\ Judge(a.from <= Len(snaps[t]) /\ Content(a.obs) = snaps[t][a.from] /\ Usable(a.obs), "stable", [expected |-> snaps[t]])
                     /\ snaps' = SetSnap(t, a.h, Content(a.obs))
                     /\ UNCHANGED <<cell, holder, canRelease, published, win, open, local, adding, added, pending>>
                [] k \in {"into_inner", "reobserve"} ->
                     /\ Judge(a.h <= Len(snaps[t]) /\ Content(a.obs) = snaps[t][a.h] /\ Usable(a.obs), "stable", [expected |-> snaps[t]])
                     /\ UNCHANGED <<cell, holder, canRelease, published, win, open, snaps, local, adding, added, pending>>
                [] k = "upd.read" ->
                     /\ Judge(holder = t, "mutex_held", [holder |-> holder])
                     /\ Judge(Content(a.obs) = cell /\ Usable(a.obs), "stale_read", [cell |-> cell])
                     /\ local' = [local EXCEPT ![t] = Content(a.obs)] /\ adding' = [adding EXCEPT ![t] = a.add]
                     /\ UNCHANGED <<cell, holder, canRelease, published, win, open, snaps, added, pending>>
                [] k = "replace.before_store" ->     \* the store takes effect somewhere between this point and replace.after_store
                     LET n == local[t] \cup {adding[t]} IN
                     /\ Judge(holder = t, "mutex_held", [holder |-> holder])
                     /\ pending' = pending \cup {n} /\ published' = published \cup {n} /\ win' = Widen(n)
                     /\ UNCHANGED <<cell, holder, canRelease, open, snaps, local, adding, added>>
                [] k = "replace.after_store" ->
                     LET n == local[t] \cup {adding[t]} IN
                     /\ cell' = n /\ published' = published \cup {n} /\ win' = Widen(n) /\ pending' = pending \ {n}
                     /\ canRelease' = (holder = t)
                     /\ UNCHANGED <<holder, open, snaps, local, adding, added>>
                [] k = "upd.end" ->
                     /\ holder' = (IF holder = t THEN 0 ELSE holder)
                     /\ canRelease' = (IF holder = t THEN FALSE ELSE canRelease)
                     /\ added' = added \cup {a.add}
                     /\ UNCHANGED <<cell, published, win, open, snaps, local, adding, pending>>
                [] k = "upd.abort.begin" ->        \* the updater is about to die holding the lock: unwinding will release it
                     /\ Judge(holder = t, "mutex_held", [holder |-> holder])
                     /\ canRelease' = (holder = t)
                     /\ UNCHANGED <<cell, holder, published, win, open, snaps, local, adding, added, pending>>
                [] k = "upd.abort" ->              \* it has died; the (poisoned) mutex is free again
                     /\ holder' = (IF holder = t THEN 0 ELSE holder)
                     /\ canRelease' = (IF holder = t THEN FALSE ELSE canRelease)
                     /\ UNCHANGED <<cell, published, win, open, snaps, local, adding, added, pending>>
                [] k = "panic" ->
                     /\ Judge(FALSE, "panic", [t |-> t])
                     /\ UNCHANGED <<cell, holder, canRelease, published, win, open, snaps, local, adding, added, pending>>
                [] OTHER ->      \* lock.before, snap.begin, upd.begin, drop: no effect on the model
                     UNCHANGED <<cell, holder, canRelease, published, win, open, snaps, local, adding, added, pending>>
    /\ l' = l + 1

TraceSpec == TraceInit /\ [][TraceNext]_tvars
Accepted ==
    LET d == TLCGet("stats").diameter IN
    IF d - 1 = Len(Rec) THEN TRUE ELSE Print(<<"UNMATCHED", d, ToJson(Rec[d])>>, FALSE)
=============================================================================
