---------------------------- MODULE Trace_Regions ----------------------------
(* Recorded histories of from_arc_regions / insert_region / remove_region on the real GuestMemoryMmap:  *)
(* after EVERY step the harness re-reads every map created so far (iter(), num_regions(), a tag byte    *)
(* read through the map) and every region handle; all of it must equal the specification state.        *)
EXTENDS Regions, Json, IOUtils
Rec == ndJsonDeserialize(IOEnv.TRACE)
VARIABLE l
tvars == <<st, last, l>>
Judge(ok, tag, exp) == IF ok THEN TRUE ELSE PrintT(<<"MISMATCH", l, tag, ToJson(exp)>>)

ResEq(lr, xr) == /\ lr.k = xr.k
                 /\ \A f \in DOMAIN xr \ {"k", "e"} : f \in DOMAIN lr /\ lr[f] = xr[f]
\* which refusal: any documented one that applies to the request (for from_regions there can be two)
ErrOK(s, op, a, lr, xr) ==
    (xr.k = "err" /\ lr.k = "err") =>
        IF op = "from_regions" THEN lr.e \in FromErrSet(s.pool, a.ids) ELSE lr.e = xr.e

PoolOK(s, ls) == /\ Len(ls.pool) = Len(s.pool)
                 /\ \A i \in 1 .. Len(s.pool) : ls.pool[i].s = s.pool[i].s /\ ls.pool[i].n = s.pool[i].n /\ ls.pool[i].tag = s.pool[i].tag
MapsOK(s, ls) == /\ Len(ls.maps) = Len(s.maps)
                 /\ \A m \in 1 .. Len(s.maps) :
                      /\ ls.maps[m].num = Len(s.maps[m])
                      /\ Len(ls.maps[m].regs) = Len(s.maps[m])
                      /\ \A i \in 1 .. Len(s.maps[m]) :
                           LET o == ls.maps[m].regs[i]
                               r == s.pool[s.maps[m][i]] IN
                           o.id = s.maps[m][i] /\ o.s = r.s /\ o.n = r.n /\ o.tag = r.tag

Logged(s, ls) == [s EXCEPT !.pool = [i \in 1 .. Len(ls.pool) |-> [s |-> ls.pool[i].s, n |-> ls.pool[i].n, tag |-> ls.pool[i].tag]],
                           !.maps = [m \in 1 .. Len(ls.maps) |-> [i \in 1 .. Len(ls.maps[m].regs) |-> ls.maps[m].regs[i].id]]]

TraceInit == st = [pool |-> <<>>, maps |-> <<>>, ops |-> 0] /\ last = [op |-> "none", a |-> [x |-> 0], r |-> Ok(0)] /\ l = 1
TraceNext ==
    /\ l <= Len(Rec)
    /\ LET e == Rec[l] IN
         IF e.op = "init"
         THEN /\ st' = [pool |-> <<>>, maps |-> <<>>, ops |-> 0]
              /\ last' = [op |-> "init", a |-> e.a, r |-> Ok(0)]
         ELSE LET x == Apply(st, e.op, e.a) IN
              /\ Judge(ResEq(e.r, x.r) /\ ErrOK(st, e.op, e.a, e.r, x.r), "result", [res |-> x.r])
              /\ Judge(PoolOK(x.st, e.s) /\ MapsOK(x.st, e.s), "maps", [pool |-> x.st.pool, maps |-> x.st.maps])
              /\ st' = Logged(st, e.s)
              /\ last' = [op |-> e.op, a |-> e.a, r |-> x.r]
    /\ l' = l + 1
TraceSpec == TraceInit /\ [][TraceNext]_tvars
Accepted ==
    LET d == TLCGet("stats").diameter IN
    IF d - 1 = Len(Rec) THEN TRUE ELSE Print(<<"UNMATCHED", d, ToJson(Rec[d])>>, FALSE)
=============================================================================
