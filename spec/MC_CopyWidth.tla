---------------------------- MODULE MC_CopyWidth ----------------------------
EXTENDS CopyWidth
ASSUME \A t \in Totals, s \in Addrs, d \in Addrs : Single(t, s, d) /\ Tiles(t, s, d)
=============================================================================
