----------------------------- MODULE MC_Regions -----------------------------
EXTENDS Regions, Json
\* every sequence of up to 3 region ids out of 1..3 (sorted or not, with repetitions)
Ids3 == UNION {[1 .. k -> 1 .. 3] : k \in 0 .. 3}
Ids4 == UNION {[1 .. k -> 1 .. 4] : k \in 0 .. 3}
Emit == PrintT(<<"EDGE", ToJson([f |-> st, act |-> last', t |-> st'])>>)
EmitInit == (last.op = "init") => PrintT(<<"INIT", ToJson([t |-> st, act |-> last])>>)
=============================================================================
