------------------------------ MODULE Streams ------------------------------
(***************************************************************************)
(* The volatile stream adapters of src/io.rs (C13), specified by what the  *)
(* corresponding std::io::Read / Write implementation does with an         *)
(* ordinary buffer of the same length.  One stream per history:            *)
(*   st = [cls, data, pos, ops (number of calls made so far)]              *)
(*   cls = "src"     a consuming source (&[u8], a drained socket/pipe):    *)
(*                   data = the bytes not yet read                         *)
(*         "sink"    a fixed-capacity sink (&mut [u8]): data = the whole   *)
(*                   backing buffer, pos = bytes written so far            *)
(*         "grow"    a growing sink (Vec<u8>, socket/pipe): data = content *)
(*         "cur_src" Cursor<impl AsRef<[u8]>>: data, pos (may exceed len)  *)
(*         "cur_sink" Cursor<&mut [u8]>: data (fixed), pos                 *)
(*         "chunked" a socket whose peer sends the data in separate chunks *)
(*                   with pauses (short reads): only the exact read is     *)
(*                   timing independent and specified                      *)
(*         "file"    File / OwnedFd / BorrowedFd: data = file contents,    *)
(*                   pos = file offset (reads and writes)                  *)
(* A read lands its bytes at the start of a buffer of `bl` bytes whose     *)
(* remaining bytes keep their filler value FILL (never touch memory beyond *)
(* what was transferred).                                                  *)
(***************************************************************************)
EXTENDS Word, Sequences, TLC

CONSTANTS Streams0,    \* initial streams explored by TLC
          BufLens,     \* buffer lengths
          PosVals      \* cursor positions set by set_pos

VARIABLES st, last
vars == <<st, last>>

FILL == 238

Sub(d, at, n) == SubSeq(d, at + 1, at + n)
Put(d, at, buf, n) == SubSeq(d, 1, at) \o SubSeq(buf, 1, n) \o SubSeq(d, at + n + 1, Len(d))
Fills(n) == [i \in 1 .. n |-> FILL]

Readable(c) == c \in {"src", "cur_src", "file", "chunked"}
Writable(c) == c \in {"sink", "grow", "cur_sink", "file"}

\* where the next read starts and how much is available
RdAt(s)  == IF s.cls \in {"src", "chunked"} THEN 0 ELSE Min(s.pos, Len(s.data))
Avail(s) == Len(s.data) - RdAt(s)
\* capacity left for a bounded sink
Room(s)  == Len(s.data) - Min(s.pos, Len(s.data))

AfterRead(s, n) == IF s.cls \in {"src", "chunked"} THEN [s EXCEPT !.data = SubSeq(s.data, n + 1, Len(s.data))]
                   ELSE [s EXCEPT !.pos = s.pos + n]

Res(s, r) == [st |-> s, r |-> r]
Skip == [k |-> "skip"]

DoWrite(s, a) ==
         IF ~Writable(s.cls) THEN Res(s, Skip)
         ELSE IF s.cls \in {"sink", "cur_sink"} THEN
              LET n == Min(Len(a.buf), Room(s)) IN
              Res([s EXCEPT !.data = Put(s.data, Min(s.pos, Len(s.data)), a.buf, n), !.pos = s.pos + n], [k |-> "ok", n |-> n])
         ELSE IF s.cls = "grow" THEN Res([s EXCEPT !.data = s.data \o a.buf], [k |-> "ok", n |-> Len(a.buf)])
         ELSE \* file: write at the offset, zero-filling a gap; an empty write changes nothing
              IF Len(a.buf) = 0 THEN Res(s, [k |-> "ok", n |-> 0])
              ELSE LET padded == IF s.pos > Len(s.data) THEN s.data \o [i \in 1 .. s.pos - Len(s.data) |-> 0] ELSE s.data
                       keep == SubSeq(padded, s.pos + Len(a.buf) + 1, Len(padded)) IN
                   Res([s EXCEPT !.data = SubSeq(padded, 1, s.pos) \o a.buf \o keep, !.pos = s.pos + Len(a.buf)],
                       [k |-> "ok", n |-> Len(a.buf)])

Apply(s, op, a) ==
  CASE op = "read" ->
         IF ~Readable(s.cls) \/ s.cls = "chunked" THEN Res(s, Skip)      \* (a single read of a chunked source is timing dependent)
         ELSE LET n == Min(a.bl, Avail(s)) IN
              Res(AfterRead(s, n), [k |-> "ok", n |-> n, buf |-> Sub(s.data, RdAt(s), n) \o Fills(a.bl - n)])
    [] op = "read_exact" ->
         IF ~Readable(s.cls) THEN Res(s, Skip)
         ELSE IF a.bl > Avail(s) THEN Res(s, [k |-> "err", io |-> "UnexpectedEof"])     \* state afterwards unspecified
         ELSE Res(AfterRead(s, a.bl), [k |-> "ok", buf |-> Sub(s.data, RdAt(s), a.bl)])
    [] op = "write" -> DoWrite(s, a)
    [] op = "write_all" ->
         IF ~Writable(s.cls) THEN Res(s, Skip)
         ELSE IF s.cls \in {"sink", "cur_sink"} /\ Len(a.buf) > Room(s)
              THEN Res(s, [k |-> "err", io |-> "WriteZero"])                              \* state afterwards unspecified
         ELSE LET x == DoWrite(s, a) IN Res(x.st, [k |-> "ok"])
    [] op = "set_pos" ->
         IF s.cls \notin {"cur_src", "cur_sink", "file"} THEN Res(s, Skip) ELSE Res([s EXCEPT !.pos = a.p], [k |-> "ok"])

Step(op, a) == LET x == Apply(st, op, a) IN
               /\ x.r.k # "skip"
               /\ st' = [x.st EXCEPT !.ops = st.ops + 1]        \* history length (bounded in MC/Gen configurations)
               /\ last' = [op |-> op, a |-> a, r |-> x.r]

TagSeq == <<101, 102, 103, 104, 105, 106, 107, 108, 109, 110, 111, 112, 113, 114, 115, 116, 117, 118, 119, 120>>
Tag(n) == SubSeq(TagSeq, 1, n)

Read      == \E b \in BufLens : Step("read", [bl |-> b])
ReadExact == \E b \in BufLens : Step("read_exact", [bl |-> b])
Write     == \E b \in BufLens : Step("write", [buf |-> Tag(b)])
WriteAll  == \E b \in BufLens : Step("write_all", [buf |-> Tag(b)])
SetPos    == \E p \in PosVals : Step("set_pos", [p |-> p])

Init == \E s \in Streams0 : st = s /\ last = [op |-> "init", a |-> s, r |-> [k |-> "ok"]]
Next == Read \/ ReadExact \/ Write \/ WriteAll \/ SetPos
Spec == Init /\ [][Next]_vars

\* ---- C13 ------------------------------------------------------------------------
\* a read never lands more than was available nor more than the buffer holds; what it lands is the stream's next bytes
ReadSane == (last.op = "read" /\ last.r.k = "ok") => last.r.n <= last.a.bl /\ Len(last.r.buf) = last.a.bl
\* exact variants succeed precisely when enough data / room exists
ExactIff == [][ /\ (last'.op = "read_exact") => (last'.r.k = "ok" <=> last'.a.bl <= Avail(st))
                /\ (last'.op = "write_all" /\ st.cls \in {"sink", "cur_sink"}) => (last'.r.k = "ok" <=> Len(last'.a.buf) <= Room(st)) ]_vars
\* nothing is lost or invented: the bytes of a bounded sink outside the written window never change
SinkFrame == [][ (st.cls \in {"sink", "cur_sink"} /\ last'.op = "write") =>
                   \A i \in 1 .. Len(st.data) : st'.data[i] # st.data[i] =>
                       i > Min(st.pos, Len(st.data)) /\ i <= Min(st.pos, Len(st.data)) + last'.r.n ]_vars
View == st
=============================================================================
