------------------------------ MODULE Programs ------------------------------
(***************************************************************************)
(* Client programs for the compile-time half of C12.  A program creates an *)
(* owner of guest memory, derives an accessor from it and arranges the use *)
(* of the accessor relative to the end of the owner's life:                *)
(*   "use_then_drop"   well-formed                                         *)
(*   "drop_then_use"   the owner is dropped while the accessor is used     *)
(*   "move_then_use"   the owner is moved away while the accessor is used  *)
(*   "return"          the accessor is returned out of the owner's scope   *)
(* WellFormed labels each program; rustc is the implementation under test: *)
(* every ill-formed program must be rejected by the borrow checker, every  *)
(* well-formed one must compile.  Pointer guards only hand out raw         *)
(* pointers and are exempt, as the property says.                          *)
(***************************************************************************)
EXTENDS TLC, Json

Owners == {"buffer_slice", "slice", "region", "guest_region", "guest_memory", "arc_memory", "snapshot"}
Accessors == {"slice", "ref", "array", "atomic", "found_region", "region_slice", "guard"}
Shapes == {"use_then_drop", "drop_then_use", "move_then_use", "return"}

\* which accessor can be derived from which owner through the public API
Derivable(o, a) ==
    CASE o \in {"buffer_slice"} -> a \in {"slice"}                    \* VolatileSlice::from(&mut buf): the buffer is the owner
      [] o \in {"slice", "region"} -> a \in {"slice", "ref", "array", "atomic", "guard"}
      [] o = "guest_region" -> a \in {"slice", "guard"}
      [] o \in {"guest_memory", "arc_memory", "snapshot"} -> a \in {"slice", "found_region", "region_slice"}

Exempt(p) == p.acc = "guard"
WellFormed(p) == p.shape = "use_then_drop" \/ Exempt(p)

AllPrograms == {p \in [owner : Owners, acc : Accessors, shape : Shapes] : Derivable(p.owner, p.acc)}

ASSUME PrintT(<<"PROGRAMS", ToJson([all |-> {[owner |-> p.owner, acc |-> p.acc, shape |-> p.shape, ok |-> WellFormed(p)] : p \in AllPrograms}])>>)

VARIABLE x
Init == x = 0
Next == UNCHANGED x
Spec == Init /\ [][Next]_x
=============================================================================
