\* C14 test generation, quick: every script of up to 4 behaviours (thorough)
SPECIFICATION Spec
CONSTANTS
  WORD = 1024
  LemmaAS = 0
  LemmaML = 1
  GenAS = 8
  Layouts <- LayC14
  Backends = {"mmap"}
  PVals = {2}
  AddrVals = {0, 1, 2, 4, 5, 7, 8}
  CntVals = {0, 1, 2, 3, 5, 6}
  BufLens = {0}
  EszVals = {1}
  AtomVals = {1}
  Scripts <- Scripts4
  WrapArm = FALSE
ACTION_CONSTRAINT Emit
CONSTRAINT EmitInit
VIEW View
CHECK_DEADLOCK FALSE
