\* test generation, quick tier (identity mapping: WORD large, nothing wraps)
SPECIFICATION Spec
CONSTANTS
  WORD = 1024
  Roots <- RootsGenQ
  OffVals = {0, 1, 2, 3, 4, 5, 6}
  CntVals = {0, 1, 2, 3, 4, 5, 6}
  EszVals = {0, 1, 2, 4}
  NVals = {0, 1, 2, 3}
  AtomVals = {1, 2, 4}
  BufLens = {0, 1, 2, 5, 9}
  TgtVals <- TgtsGen
  OneShot = TRUE
INVARIANTS Contained
ACTION_CONSTRAINT Emit
CONSTRAINT EmitInit
VIEW View
CHECK_DEADLOCK FALSE
