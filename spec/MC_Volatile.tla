---------------------------- MODULE MC_Volatile ----------------------------
EXTENDS Volatile, Json

\* constant values that a .cfg file cannot express (tuples)
RootsMC   == {<<"slice", 4, 0, 1>>, <<"slice", 5, 1, 2>>, <<"region", 4, 0, 3>>, <<"slice", 0, 0, 1>>}
RootsMCT  == {<<"slice", 3, 1, 2>>, <<"region", 3, 0, 1>>}
TgtsMCT   == {<<0, 2>>, <<1, 2>>}
TgtsMC    == {<<0, 2>>, <<1, 3>>, <<2, 2>>, <<0, 0>>}
RootsGenA == {<<"slice", 8, 0, 1>>, <<"slice", 6, 1, 3>>, <<"region", 5, 0, 2>>, <<"slice", 0, 0, 1>>, <<"slice", 1, 3, 7>>}
RootsGenB == {<<"slice", 9, 2, 4>>, <<"region", 8, 0, 1>>, <<"slice", 3, 7, 1>>, <<"slice", 12, 4, 5>>}
RootsGenQ == {<<"slice", 5, 1, 2>>, <<"region", 4, 0, 3>>, <<"slice", 0, 0, 1>>}
TgtsGen   == {<<0, 2>>, <<1, 3>>, <<2, 4>>, <<0, 0>>, <<4, 1>>}
Emit == PrintT(<<"EDGE", ToJson([f |-> st, act |-> last', t |-> st'])>>)
EmitInit == (last.op = "init") => PrintT(<<"INIT", ToJson([t |-> st, act |-> last])>>)
=============================================================================
