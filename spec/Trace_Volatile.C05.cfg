SPECIFICATION TraceSpec
CONSTANTS
  WORD = 1073741824
  Roots = {}
  OffVals = {0}
  CntVals = {0}
  EszVals = {1}
  NVals = {0}
  AtomVals = {1}
  BufLens = {0}
  TgtVals = {}
  OneShot = FALSE
  Check = {"dirty_sound"}
POSTCONDITION Accepted
CHECK_DEADLOCK FALSE
