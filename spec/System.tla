------------------------------- MODULE System -------------------------------
(***************************************************************************)
(* The crate as ONE system: the objects the other modules describe one at   *)
(* a time, living together and sharing state the way they do in the code.   *)
(*                                                                           *)
(*   region OBJECTS   (GuestRegionMmap behind an Arc): guest base, size, the *)
(*                    bytes of the mapping and the dirty bitmap.  A region   *)
(*                    object is shared by every map that contains it         *)
(*                    (insert_region / remove_region / clone copy the Arc,   *)
(*                    never the mapping, never the bitmap).                  *)
(*   maps             (GuestMemoryMmap): immutable sorted sequences of       *)
(*                    region objects.                                        *)
(*   cells            (GuestMemoryAtomic): a replaceable current map.        *)
(*   snapshots        (GuestMemoryLoadGuard / Arc<M>): the map that was      *)
(*                    current when the snapshot was taken.                   *)
(*   handles          what the client holds: region, map, cell, snapshot     *)
(*                    handles; clone and drop in any order.                  *)
(*                                                                           *)
(* What this module adds to Regions / GuestMem / Bitmap / AtomicMap /        *)
(* Ownership is the COMPOSITION: a write through a stale snapshot lands in   *)
(* the region objects it shares with the current map (and is seen there,     *)
(* bytes and dirty marks), never in a region object of the same guest range  *)
(* that belongs to another map; replacing the current map changes no         *)
(* snapshot; a mapping stays as long as any handle of any kind reaches it.   *)
(*                                                                           *)
(* st = [regs  : Seq([s, n, mem, dirty, base]),  region objects (base = the  *)
(*                                                bytes at the last reset)   *)
(*       cells : Seq(Seq(region id)),                                        *)
(*       hs    : Seq(handle),                                                *)
(*       ops   : Nat]                                                        *)
(* handle = [k |-> "region", r] | [k |-> "map", rs] | [k |-> "snap", rs]     *)
(*        | [k |-> "cell", c]  | [k |-> "dead"]                              *)
(***************************************************************************)
EXTENDS Naturals, Sequences, FiniteSets, TLC

CONSTANTS Cands,        \* sequence of candidate guest ranges [s |-> base, n |-> size]
          P,            \* dirty-page size
          MaxRegs, MaxHandles, MaxCells, MaxOps,
          Addrs, Lens,  \* guest addresses / lengths used by reads and writes
          IdSeqs,       \* sequences of handle numbers offered to from_regions
          Warm,         \* start from nothing (0), from a running system (1), from a running system with a twin map (2)
          Variant       \* "code"; negative variants that the properties must refute: "nomark" (a write path that
                        \* forgets the bitmap), "alias" (a write lands in every object of the same guest range),
                        \* "inplace" (replace mutates the map that snapshots share)

VARIABLES st, last
vars == <<st, last>>

Ok(v) == [k |-> "ok", v |-> v]
Err(e) == [k |-> "err", e |-> e]
Skip == [k |-> "skip"]
Res(s, r) == [st |-> s, r |-> r]
Range(q) == {q[i] : i \in 1 .. Len(q)}
Dead == [k |-> "dead"]

\* ---- maps (same checks as Regions.tla: windows(2), first failing check wins) ------------------
RECURSIVE ChkFrom(_, _, _)
ChkFrom(regs, ids, i) ==
    IF i >= Len(ids) THEN "ok"
    ELSE LET p == regs[ids[i]]
             q == regs[ids[i + 1]] IN
         IF p.s > q.s THEN "UnsortedMemoryRegions"
         ELSE IF p.s + (p.n - 1) >= q.s THEN "MemoryRegionOverlap"
         ELSE ChkFrom(regs, ids, i + 1)
FromIds(regs, ids) == IF Len(ids) = 0 THEN "NoMemoryRegion" ELSE ChkFrom(regs, ids, 1)
SortedDisjoint(regs, ids) == \A i \in 1 .. Len(ids) - 1 : regs[ids[i]].s + regs[ids[i]].n <= regs[ids[i + 1]].s
InsSorted(regs, ids, r) ==
    LET k == Cardinality({i \in 1 .. Len(ids) : regs[ids[i]].s <= regs[r].s})
    IN  SubSeq(ids, 1, k) \o <<r>> \o SubSeq(ids, k + 1, Len(ids))

\* ---- the address space seen through a list of region objects (GuestMem.tla's Owner / Run) ------
In(reg, a) == reg.s <= a /\ a < reg.s + reg.n
Mapped(regs, rs, a) == \E i \in 1 .. Len(rs) : In(regs[rs[i]], a)
\* length of the contiguous mapped run from addr, capped by len (what try_access completes)
RunLen(regs, rs, addr, len) ==
    CHOOSE n \in 0 .. len : (\A j \in 0 .. n - 1 : Mapped(regs, rs, addr + j)) /\ (n = len \/ ~Mapped(regs, rs, addr + n))
ByteAt(regs, rs, a) == LET i == CHOOSE i \in 1 .. Len(rs) : In(regs[rs[i]], a) IN regs[rs[i]].mem[a - regs[rs[i]].s + 1]

\* write data[1..n] at addr.. into the region objects of rs (and nowhere else); mark their pages
WriteRegs(regs, rs, addr, data, n) ==
    [r \in 1 .. Len(regs) |->
        IF r \notin Range(rs) /\ ~(Variant = "alias" /\ \E q \in Range(rs) : regs[q].s = regs[r].s) THEN regs[r]
        ELSE LET reg == regs[r]
                 hit == {o \in 1 .. reg.n : reg.s + o - 1 >= addr /\ reg.s + o - 1 < addr + n} IN
             [reg EXCEPT !.mem = [o \in 1 .. reg.n |-> IF o \in hit THEN data[reg.s + o - 1 - addr + 1] ELSE reg.mem[o]],
                         !.dirty = IF Variant = "nomark" THEN @ ELSE @ \cup {(o - 1) \div P : o \in hit}]]

\* ---- handles ----------------------------------------------------------------------------------
Live(s, h) == h \in 1 .. Len(s.hs) /\ s.hs[h].k # "dead"
Kind(s, h) == IF Live(s, h) THEN s.hs[h].k ELSE "none"
\* the region list a memory handle (map, snapshot, cell) currently denotes
RsOf(s, h) == IF s.hs[h].k = "cell" THEN s.cells[s.hs[h].c] ELSE s.hs[h].rs
IsMem(s, h) == Kind(s, h) \in {"map", "snap", "cell"}
Push(s, hd) == [s EXCEPT !.hs = Append(s.hs, hd)]
Room(s, k) == Len(s.hs) + k <= MaxHandles

\* region objects some live handle still reaches (Ownership.tla's reachability, over all handle kinds)
Reach(s) ==
    UNION {LET hd == s.hs[h] IN
           CASE hd.k = "region" -> {hd.r}
             [] hd.k \in {"map", "snap"} -> Range(hd.rs)
             [] hd.k = "cell" -> Range(s.cells[hd.c])
             [] OTHER -> {} : h \in 1 .. Len(s.hs)}

Data(v, len) == [i \in 1 .. len |-> (v + i - 1) % 251]

Apply(s, op, a) ==
  CASE op = "create" ->
         IF Len(s.regs) >= MaxRegs \/ ~Room(s, 1) THEN Res(s, Skip)
         ELSE LET c == Cands[a.c]
                  z == [o \in 1 .. c.n |-> 0] IN
              Res(Push([s EXCEPT !.regs = Append(s.regs, [s |-> c.s, n |-> c.n, mem |-> z, dirty |-> {}, base |-> z])],
                       [k |-> "region", r |-> Len(s.regs) + 1]), Ok(Len(s.hs) + 1))
    [] op = "build" ->
         IF ~Room(s, 1) \/ \E i \in 1 .. Len(a.hs) : Kind(s, a.hs[i]) # "region" THEN Res(s, Skip)
         ELSE LET ids == [i \in 1 .. Len(a.hs) |-> s.hs[a.hs[i]].r]
                  c == FromIds(s.regs, ids) IN
              IF c = "ok" THEN Res(Push(s, [k |-> "map", rs |-> ids]), Ok(Len(s.hs) + 1)) ELSE Res(s, Err(c))
    [] op = "insert" ->
         IF ~Room(s, 1) \/ Kind(s, a.m) # "map" \/ Kind(s, a.r) # "region" THEN Res(s, Skip)
         ELSE LET ids == InsSorted(s.regs, s.hs[a.m].rs, s.hs[a.r].r)
                  c == FromIds(s.regs, ids) IN
              IF c = "ok" THEN Res(Push(s, [k |-> "map", rs |-> ids]), Ok(Len(s.hs) + 1)) ELSE Res(s, Err(c))
    [] op = "remove" ->          \* remove the a.i-th region of map a.m: a new map and a handle on the removed region
         IF ~Room(s, 2) \/ Kind(s, a.m) # "map" THEN Res(s, Skip)
         ELSE LET ids == s.hs[a.m].rs IN
              IF a.i > Len(ids) THEN Res(s, Skip)
              ELSE Res(Push(Push(s, [k |-> "map", rs |-> SubSeq(ids, 1, a.i - 1) \o SubSeq(ids, a.i + 1, Len(ids))]),
                            [k |-> "region", r |-> ids[a.i]]), Ok(Len(s.hs) + 1))
    [] op = "atomic" ->
         IF ~Room(s, 1) \/ Kind(s, a.m) # "map" \/ Len(s.cells) >= MaxCells THEN Res(s, Skip)
         ELSE Res(Push([s EXCEPT !.cells = Append(s.cells, s.hs[a.m].rs)], [k |-> "cell", c |-> Len(s.cells) + 1]), Ok(Len(s.hs) + 1))
    [] op = "snap" ->
         IF ~Room(s, 1) \/ Kind(s, a.h) # "cell" THEN Res(s, Skip)
         ELSE Res(Push(s, [k |-> "snap", rs |-> s.cells[s.hs[a.h].c]]), Ok(Len(s.hs) + 1))
    [] op = "replace" ->
         IF Kind(s, a.h) # "cell" \/ Kind(s, a.m) # "map" THEN Res(s, Skip)
         ELSE IF Variant = "inplace"
              THEN LET old == s.cells[s.hs[a.h].c] IN
                   Res([s EXCEPT !.cells[s.hs[a.h].c] = s.hs[a.m].rs,
                                 !.hs = [h \in 1 .. Len(s.hs) |-> IF s.hs[h].k = "snap" /\ s.hs[h].rs = old
                                                                   THEN [k |-> "snap", rs |-> s.hs[a.m].rs] ELSE s.hs[h]]], Ok(0))
              ELSE Res([s EXCEPT !.cells[s.hs[a.h].c] = s.hs[a.m].rs], Ok(0))
    [] op = "clone" ->
         IF ~Room(s, 1) \/ ~Live(s, a.h) THEN Res(s, Skip) ELSE Res(Push(s, s.hs[a.h]), Ok(Len(s.hs) + 1))
    [] op = "drop" ->
         IF ~Live(s, a.h) THEN Res(s, Skip) ELSE Res([s EXCEPT !.hs[a.h] = Dead], Ok(0))
    [] op = "write" ->           \* Bytes::write (partial): as many bytes as the contiguous mapped run allows
         IF ~IsMem(s, a.h) THEN Res(s, Skip)
         ELSE LET rs == RsOf(s, a.h)
                  n == RunLen(s.regs, rs, a.addr, a.len) IN
              IF n = 0 THEN Res(s, Err("InvalidGuestAddress"))
              ELSE Res([s EXCEPT !.regs = WriteRegs(s.regs, rs, a.addr, Data(a.v, a.len), n)], Ok(n))
    [] op = "read" ->
         IF ~IsMem(s, a.h) THEN Res(s, Skip)
         ELSE LET rs == RsOf(s, a.h)
                  n == RunLen(s.regs, rs, a.addr, a.len) IN
              IF n = 0 THEN Res(s, Err("InvalidGuestAddress"))
              ELSE Res(s, [k |-> "ok", v |-> n, data |-> [i \in 1 .. n |-> ByteAt(s.regs, rs, a.addr + i - 1)]])
    [] op = "reset" ->           \* reset the dirty bitmap of the a.i-th region of a memory handle
         IF ~IsMem(s, a.h) THEN Res(s, Skip)
         ELSE LET rs == RsOf(s, a.h) IN
              IF a.i > Len(rs) THEN Res(s, Skip)
              ELSE Res([s EXCEPT !.regs[rs[a.i]].dirty = {}, !.regs[rs[a.i]].base = s.regs[rs[a.i]].mem], Ok(0))

Step(op, a) == LET x == Apply(st, op, a) IN
               /\ x.r.k # "skip"                      \* the model only takes well-typed steps; traces may contain skips
               /\ st' = [x.st EXCEPT !.ops = st.ops + 1]
               /\ last' = [op |-> op, a |-> a, r |-> x.r]

H == 1 .. Len(st.hs)
Create  == \E c \in 1 .. Len(Cands) : Step("create", [c |-> c])
Build   == \E q \in IdSeqs : Step("build", [hs |-> q])
Insert  == \E m \in H, r \in H : Step("insert", [m |-> m, r |-> r])
Remove  == \E m \in H, i \in 1 .. 3 : Step("remove", [m |-> m, i |-> i])
Atomic  == \E m \in H : Step("atomic", [m |-> m])
Snap    == \E h \in H : Step("snap", [h |-> h])
Replace == \E h \in H, m \in H : Step("replace", [h |-> h, m |-> m])
Clone   == \E h \in H : Step("clone", [h |-> h])
Drop    == \E h \in H : Step("drop", [h |-> h])
\* addresses worth trying through handle h: mapped, or just below something mapped (the refusal and the partial cases)
Near(h) == IF IsMem(st, h) THEN {ad \in Addrs : \E j \in 0 .. 1 : Mapped(st.regs, RsOf(st, h), ad + j)} ELSE {}
Write   == \E h \in H : \E ad \in Near(h), n \in Lens : Step("write", [h |-> h, addr |-> ad, len |-> n, v |-> 10 * (st.ops + 1)])
Read    == \E h \in H : \E ad \in Near(h), n \in Lens : Step("read", [h |-> h, addr |-> ad, len |-> n])
Reset   == \E h \in H, i \in 1 .. 3 : Step("reset", [h |-> h, i |-> i])

Cold == [regs |-> <<>>, cells |-> <<>>, hs |-> <<>>, ops |-> 0]
Run(s, prog) == LET RECURSIVE go(_, _)
                    go(t, i) == IF i > Len(prog) THEN t ELSE go(Apply(t, prog[i].op, prog[i].a).st, i + 1)
                IN go(s, 1)
\* a running system: two adjacent regions, a map over the first, published in a cell, one snapshot taken
WarmProg1 == << [op |-> "create", a |-> [c |-> 1]], [op |-> "create", a |-> [c |-> 2]], [op |-> "build", a |-> [hs |-> <<1>>]],
                [op |-> "atomic", a |-> [m |-> 3]], [op |-> "snap", a |-> [h |-> 4]] >>
\* twins: two region objects over the SAME guest range, a map over each, the first published, one snapshot taken -
\* replacing the published map by its twin changes no address, only the objects behind them
WarmProg2 == << [op |-> "create", a |-> [c |-> 1]], [op |-> "create", a |-> [c |-> Len(Cands)]], [op |-> "build", a |-> [hs |-> <<1>>]],
                [op |-> "build", a |-> [hs |-> <<2>>]], [op |-> "atomic", a |-> [m |-> 3]], [op |-> "snap", a |-> [h |-> 5]] >>
WarmProg == IF Warm = 2 THEN WarmProg2 ELSE IF Warm = 1 THEN WarmProg1 ELSE <<>>
Init == st = Run(Cold, WarmProg) /\ last = [op |-> "init", a |-> [x |-> 0], r |-> Ok(0)]
Next == st.ops < MaxOps /\ (Create \/ Build \/ Insert \/ Remove \/ Atomic \/ Snap \/ Replace \/ Clone \/ Drop \/ Write \/ Read \/ Reset)
Spec == Init /\ [][Next]_vars

\* ---- system-level properties ---------------------------------------------------------------------
MemHandles(s) == {h \in 1 .. Len(s.hs) : s.hs[h].k \in {"map", "snap", "cell"}}
\* C10 / C11: every memory a client can hold is a valid map
AllValid == \A h \in MemHandles(st) : SortedDisjoint(st.regs, RsOf(st, h))
\* C05 across handles: whatever handle wrote it, a byte that differs from its value at the last reset lies in a dirty page
\* of the (shared) region object
DirtySound == \A r \in 1 .. Len(st.regs) : \A o \in 1 .. st.regs[r].n :
                  st.regs[r].mem[o] # st.regs[r].base[o] => ((o - 1) \div P) \in st.regs[r].dirty
\* C16: and a dirty page has been the target of a write since then (no write => no mark); pages lie inside the region
DirtyInside == \A r \in 1 .. Len(st.regs) : \A p \in st.regs[r].dirty : p * P < st.regs[r].n
\* C10 / C11: maps and snapshots are immutable, region geometry is immutable; only `replace` changes what a cell denotes
Immutable ==
    [][ /\ \A h \in 1 .. Len(st.hs) : (st.hs[h].k \in {"map", "snap"} /\ st'.hs[h].k # "dead") => st'.hs[h] = st.hs[h]
        /\ \A r \in 1 .. Len(st.regs) : st'.regs[r].s = st.regs[r].s /\ st'.regs[r].n = st.regs[r].n
        /\ \A c \in 1 .. Len(st.cells) : st'.cells[c] # st.cells[c] => last'.op = "replace" ]_vars
\* C03 / C04 across objects: a write through one memory changes only the region objects of THAT memory, only inside the
\* written range; every other operation changes no byte at all
Isolation ==
    [][ \A r \in 1 .. Len(st.regs) : \A o \in 1 .. st.regs[r].n :
           st'.regs[r].mem[o] # st.regs[r].mem[o] =>
               /\ last'.op = "write" /\ last'.r.k = "ok"
               /\ r \in Range(RsOf(st, last'.a.h))
               /\ st.regs[r].s + o - 1 \in last'.a.addr .. last'.a.addr + last'.r.v - 1 ]_vars
\* the composition law: two memories that contain the same region object agree on every byte and every dirty bit of it
\* (holds by construction here - the conformance check is what makes it a statement about the code), and two memories that
\* map the same guest address through DIFFERENT region objects are independent (Isolation)
\* C12: a region object is reachable iff some live handle of any kind reaches it; nothing is resurrected
NoResurrection == [][ Reach(st') \subseteq Reach(st) \cup (Len(st.regs) + 1 .. Len(st'.regs)) ]_vars

View == st
=============================================================================
