\* exhaustive design check, quick tier: every (start,len) of an 8-value word
SPECIFICATION Spec
CONSTANTS
  WORD = 8
  WB = 64
  InitBS = {0, 1, 3, 4}
  InitPS = {1, 3}
  AddrVals = {0, 1, 2, 3, 4, 5, 6, 7}
  LenVals = {0, 1, 2, 3, 4, 5, 6, 7}
  IdxVals = {0, 1, 2, 3, 4, 5}
  EnlVals = {0, 1}
  BaseVals = {0, 1, 7}
  SOffVals = {0, 1, 2, 7}
  SLenVals = {0, 1, 2, 7}
  MaxBS = 5
  Handles = {1, 2}
  AllowClone = TRUE
INVARIANTS InRange HarvestExact UntrackedClean UntrackedAnswers
PROPERTIES FrameOK RangeExact
VIEW View
CHECK_DEADLOCK FALSE
