---------------------------- MODULE MC_Ownership ----------------------------
EXTENDS Ownership, Json
Emit == PrintT(<<"EDGE", ToJson([f |-> st, act |-> last', t |-> st'])>>)
EmitInit == (last.op = "init") => PrintT(<<"INIT", ToJson([t |-> st, act |-> last])>>)
=============================================================================
