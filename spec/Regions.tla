------------------------------ MODULE Regions ------------------------------
(***************************************************************************)
(* Building guest memory maps from regions (C10).  Regions are immutable   *)
(* handles <<start, len>> with an identity; a map is an immutable sequence *)
(* of region ids.  EVERY map ever created stays in `maps`, so "the old map *)
(* is intact" is the action property that no earlier element of `maps`     *)
(* ever changes, and region identity (a new map shares the region objects  *)
(* of the map it was derived from) is observed through a tag byte stored   *)
(* in the region's memory.                                                 *)
(*   st = [pool : Seq([s, n, tag]),   region handles in creation order     *)
(*         maps : Seq(Seq(region id)),                                     *)
(*         ops  : number of operations so far]                             *)
(***************************************************************************)
EXTENDS Word, Sequences, FiniteSets, TLC

CONSTANTS StartVals, LenVals, MaxPool, MaxMaps, MaxOps, IdSeqs, TagVals

VARIABLES st, last
vars == <<st, last>>

Ok(v) == [k |-> "ok", v |-> v]
Err(e) == [k |-> "err", e |-> e]
Res(s, r) == [st |-> s, r |-> r]

LastOf(r) == r.s + (r.n - 1)

\* from_arc_regions as written: windows(2), first failing check wins
RECURSIVE ChkFrom(_, _, _)
ChkFrom(pool, ids, i) ==
    IF i >= Len(ids) THEN "ok"
    ELSE LET p == pool[ids[i]]
             q == pool[ids[i + 1]] IN
         IF p.s > q.s THEN "UnsortedMemoryRegions"
         ELSE IF LastOf(p) >= q.s THEN "MemoryRegionOverlap"
         ELSE ChkFrom(pool, ids, i + 1)
FromIds(pool, ids) == IF Len(ids) = 0 THEN "NoMemoryRegion" ELSE ChkFrom(pool, ids, 1)

\* every documented refusal that applies to a sequence of regions; the code reports the first one its pairwise scan meets,
\* another order of the same checks would be as good (the property names the refusals, not their precedence)
Meet(p, q) == p.s <= LastOf(q) /\ q.s <= LastOf(p)
FromErrSet(pool, ids) ==
    IF Len(ids) = 0 THEN {"NoMemoryRegion"}
    ELSE (IF \E i \in 1 .. Len(ids) - 1 : pool[ids[i]].s > pool[ids[i + 1]].s THEN {"UnsortedMemoryRegions"} ELSE {})
         \cup (IF \E i, j \in 1 .. Len(ids) : i # j /\ Meet(pool[ids[i]], pool[ids[j]]) THEN {"MemoryRegionOverlap"} ELSE {})

\* the abstract reading: sorted, pairwise disjoint
SortedDisjoint(pool, ids) == \A i \in 1 .. Len(ids) - 1 : pool[ids[i]].s + pool[ids[i]].n <= pool[ids[i + 1]].s
ValidMap(pool, ids) == Len(ids) > 0 /\ SortedDisjoint(pool, ids)

\* stable insertion by start address (push + sort_by_key)
InsSorted(pool, ids, r) ==
    LET k == Cardinality({i \in 1 .. Len(ids) : pool[ids[i]].s <= pool[r].s})
    IN  SubSeq(ids, 1, k) \o <<r>> \o SubSeq(ids, k + 1, Len(ids))

Apply(s, op, a) ==
  CASE op = "new_region" ->
         IF a.s + a.n >= WORD THEN Res(s, Err("InvalidGuestRegion"))      \* the end would exceed the address space
         ELSE Res([s EXCEPT !.pool = Append(s.pool, [s |-> a.s, n |-> a.n, tag |-> Len(s.pool) + 1])], Ok(Len(s.pool) + 1))
    [] op = "from_regions" ->
         LET c == FromIds(s.pool, a.ids) IN
         IF c = "ok" THEN Res([s EXCEPT !.maps = Append(s.maps, a.ids)], Ok(Len(s.maps) + 1)) ELSE Res(s, Err(c))
    [] op = "insert_region" ->
         LET ids == InsSorted(s.pool, s.maps[a.m], a.r)
             c == FromIds(s.pool, ids) IN
         IF c = "ok" THEN Res([s EXCEPT !.maps = Append(s.maps, ids)], Ok(Len(s.maps) + 1)) ELSE Res(s, Err(c))
    [] op = "remove_region" ->
         LET ids == s.maps[a.m]
             hit == {i \in 1 .. Len(ids) : s.pool[ids[i]].s = a.base /\ s.pool[ids[i]].n = a.size} IN
         IF hit = {} THEN Res(s, Err("InvalidGuestRegion"))
         ELSE LET i == CHOOSE i \in hit : TRUE IN
              Res([s EXCEPT !.maps = Append(s.maps, SubSeq(ids, 1, i - 1) \o SubSeq(ids, i + 1, Len(ids)))],
                  [k |-> "ok", v |-> Len(s.maps) + 1, removed |-> ids[i]])
    [] op = "write_tag" ->        \* store a byte at the first address of region number a.i of map a.m, through that map
         LET r == s.maps[a.m][a.i] IN Res([s EXCEPT !.pool[r].tag = a.val], [k |-> "ok"])

Step(op, a) == LET x == Apply(st, op, a) IN
               /\ st' = [x.st EXCEPT !.ops = st.ops + 1]
               /\ last' = [op |-> op, a |-> a, r |-> x.r]

NewRegion   == \E s \in StartVals, n \in LenVals : Len(st.pool) < MaxPool /\ Step("new_region", [s |-> s, n |-> n])
FromRegions == \E ids \in IdSeqs : (\A i \in 1 .. Len(ids) : ids[i] <= Len(st.pool)) /\ Len(st.maps) < MaxMaps
                                    /\ Step("from_regions", [ids |-> ids])
InsertRegion == \E m \in 1 .. Len(st.maps), r \in 1 .. Len(st.pool) : Len(st.maps) < MaxMaps /\ Step("insert_region", [m |-> m, r |-> r])
RemoveRegion == \E m \in 1 .. Len(st.maps), b \in StartVals, z \in LenVals : Len(st.maps) < MaxMaps
                                    /\ Step("remove_region", [m |-> m, base |-> b, size |-> z])
WriteTag    == \E m \in 1 .. Len(st.maps) : \E i \in 1 .. Len(st.maps[m]), v \in TagVals :
                                    Step("write_tag", [m |-> m, i |-> i, val |-> v])

Init == st = [pool |-> <<>>, maps |-> <<>>, ops |-> 0] /\ last = [op |-> "init", a |-> [x |-> 0], r |-> Ok(0)]
Next == st.ops < MaxOps /\ (NewRegion \/ FromRegions \/ InsertRegion \/ RemoveRegion \/ WriteTag)
Spec == Init /\ [][Next]_vars

\* ---- C10 ----------------------------------------------------------------------
\* every map ever returned is sorted, pairwise disjoint, non-empty
AllMapsValid == \A m \in 1 .. Len(st.maps) : SortedDisjoint(st.pool, st.maps[m])     \* (removing the only region leaves an empty map)
\* the transcription of from_arc_regions accepts exactly the valid sequences (checked on every attempt)
ChecksExact == (last.op = "from_regions") => (last.r.k = "ok" <=> ValidMap(st.pool, last.a.ids))
\* ... and refuses with one of the refusals that apply
RefusalApplies == (last.op = "from_regions" /\ last.r.k = "err") => last.r.e \in FromErrSet(st.pool, last.a.ids)
\* the old map, and every earlier map, keeps describing the same regions
OldMapsIntact == [][ /\ Len(st'.maps) >= Len(st.maps)
                     /\ \A m \in 1 .. Len(st.maps) : st'.maps[m] = st.maps[m]
                     /\ \A r \in 1 .. Len(st.pool) : st'.pool[r].s = st.pool[r].s /\ st'.pool[r].n = st.pool[r].n ]_vars
\* the new map is exactly the old set plus / minus the one region
PlusMinusOne ==
    [][ /\ (last'.op = "insert_region" /\ last'.r.k = "ok") =>
             LET new == st'.maps[last'.r.v] IN
             {new[i] : i \in 1 .. Len(new)} = {st.maps[last'.a.m][i] : i \in 1 .. Len(st.maps[last'.a.m])} \cup {last'.a.r}
             /\ Len(new) = Len(st.maps[last'.a.m]) + 1
        /\ (last'.op = "remove_region" /\ last'.r.k = "ok") =>
             LET new == st'.maps[last'.r.v] IN
             {new[i] : i \in 1 .. Len(new)} = {st.maps[last'.a.m][i] : i \in 1 .. Len(st.maps[last'.a.m])} \ {last'.r.removed}
             /\ Len(new) = Len(st.maps[last'.a.m]) - 1 ]_vars
View == st
=============================================================================
