"""AtomicMap pipeline (C11)."""
import os
from vlib import *

TLA = os.path.join(SPEC, "AtomicMap.tla")
TRACE_TLA = os.path.join(SPEC, "Trace_AtomicMap.tla")

S = {"k": "snapshot"}
U = {"k": "update"}
A = {"k": "abort"}


def C(h):
    return {"k": "clone", "h": h}


def I(h):
    return {"k": "into_inner", "h": h}


def R(h):
    return {"k": "reobserve", "h": h}


def D(h):
    return {"k": "drop", "h": h}


SCENARIOS = [
    [[S, R(1), R(1)], [U, U]],
    [[S, C(1), I(1), R(2), D(1), R(2), S, R(3)], [U, U], [U]],
    [[S, R(1), S, R(1), R(2)], [S, I(1), R(1), S, R(2)], [U, U, U]],
    [[U, S, R(1)], [U, S, R(1)], [S, C(1), D(1), R(2), U]],
    [[S, I(1), C(1), D(1), R(2), U, R(2)], [U, U], [S, S, S, R(1), R(2), R(3)]],
    [[U, U, U], [U, U, U]],
    [[A, U, S, R(1)], [U, A, U], [S, R(1), U]],          # updaters dying with the lock held: the others carry on
]

# small scenarios whose schedules (every choice of the controller among the threads parked at a schedule point of the
# REAL GuestMemoryAtomic) are enumerated depth first instead of sampled
DFS_SCENARIOS = [
    [[S], [U]],
    [[U], [U]],
    [[S, R(1)], [U]],
    [[S], [A, U]],
    [[S, I(1), R(1)], [U], [U]],
    [[S, S, R(1), R(2)], [U, U]],
]


def run(ctx):
    r = tlc_must_pass(TLA, os.path.join(SPEC, "MC_AtomicMap.cfg"), "mc_amap", workers=8, timeout=900)
    ctx.add_mc(r, "MC_AtomicMap.cfg")
    for neg in ("MC_AtomicMap.neg_release.cfg", "MC_AtomicMap.neg_nomutex.cfg"):
        r = tlc(TLA, os.path.join(SPEC, neg), "mc_amap_neg", workers=4, timeout=600)
        if r.ok:
            raise ToolError("negative configuration %s was not refuted" % neg)
    ctx.cov["negative_configs_refuted"] = 2
    ctx.cov["exhaustive"] = True
    per = 60 if ctx.tier == "quick" else 1500
    prog = [{"op": "scenario", "a": {"threads": th, "schedules": per, "seed": ctx.seed + i}} for i, th in enumerate(SCENARIOS)]
    # reader (4 points) against updater (9 points): C(13,4) = 715 interleavings - enumerated to completion in both tiers;
    # the others are enumerated depth first up to a cap (evidence says whether the enumeration completed)
    caps = [800, 150, 150, 150, 150, 150] if ctx.tier == "quick" else [800, 12000, 4000, 12000, 4000, 4000]
    prog += [{"op": "scenario", "a": {"threads": th, "schedules": cap, "exhaustive": True}} for th, cap in zip(DFS_SCENARIOS, caps)]
    events = run_harness("amap", prog, os.path.join(WORK, "amap.ev.ndjson"), timeout=3000, ctx=ctx, one_event_per_line=False)
    nsched = sum(1 for e in events if e["op"] == "init")
    blocked = 0
    chunk, k = [], 0
    for h in split_events(events):
        # how often did an updater wait for the mutex (lock.before ... another thread's steps ... lock.acquired)?
        chunk += h
        if len(chunk) > 150000:
            judge(ctx, "tr_amap_%d" % k, chunk)
            chunk, k = [], k + 1
    if chunk:
        judge(ctx, "tr_amap_%d" % k, chunk)
    ctx.cov["traces_validated_against_impl"] += nsched
    ctx.cov["schedules_run"] = nsched
    distinct = len(set(json.dumps([(e["a"]["t"], e["a"]["kind"]) for e in h[1:-1]]) for h in split_events(events)))
    ctx.cov["distinct_schedules"] = distinct
    # the enumerated scenarios: how many schedules each needed, and whether the enumeration ran to completion
    dfs = {}
    for h in split_events(events):
        if h[0]["a"].get("exhaustive"):
            key = json.dumps(h[0]["a"]["threads"])
            d = dfs.setdefault(key, {"threads": h[0]["a"]["threads"], "schedules": 0, "complete": False, "diverged": 0})
            d["schedules"] += 1
            d["complete"] = d["complete"] or bool(h[-1]["a"].get("dfs_complete"))
            d["diverged"] = max(d["diverged"], h[-1]["a"].get("diverged", 0))
    ctx.cov["enumerated_scenarios"] = [dict(v, threads=json.dumps(v["threads"])) for v in dfs.values()]
    ctx.cov["enumerated_scenarios_complete"] = sum(1 for v in dfs.values() if v["complete"])
    for v in dfs.values():
        log("[amap] enumerated %s: %d schedules, complete=%s, diverged=%d" % (json.dumps(v["threads"]), v["schedules"], v["complete"], v["diverged"]))
    first = split_events(events)[1]
    ctx.sample({"kind": "one recorded schedule of readers and updaters on the real GuestMemoryAtomic",
                "threads": first[0]["a"]["threads"], "events": [e["a"] for e in first[1:40]]})
    log("[amap] %d scenarios, %d schedules (%d distinct), %d events" % (len(SCENARIOS), nsched, distinct, len(events)))
    ctx.assumptions += [
        "arc-swap's load/store and std's Mutex are trusted to be linearizable; schedule points bracket them",
        "the larger scenarios' schedules are a seeded random sample; the small scenarios' schedules are enumerated depth "
        "first over the controller's decisions (complete where evidence says so; a thread that does not reach its next point within a grace period is treated "
        "as blocked for scheduling only, so the enabled sets are time dependent: divergences from a replayed prefix are counted); "
        "the exhaustive interleaving check of the design is on the model (MC_AtomicMap)",
    ]


def judge(ctx, name, events):
    mism = validate_trace(ctx, TRACE_TLA, os.path.join(SPEC, "Trace_AtomicMap.C11.cfg"), name, events, encode=False, timeout=3000)
    for m in mism:
        i, tag, exp = m[0], m[1], m[2]
        j = i - 1
        while events[j]["op"] != "init":
            j -= 1
        k = i
        while k < len(events) and events[k]["op"] != "init":
            k += 1
        ctx.mismatch({"module": "AtomicMap", "tag": tag, "op": tag, "a": {"threads": events[j]["a"]["threads"]}, "r": {"k": tag},
                      "event": events[i - 1]["a"]},
                     {"module": "amap", "history": [e["a"] for e in events[j + 1:k]], "expected": exp,
                      "program": [{"op": "scenario", "a": {"threads": events[j]["a"]["threads"], "schedules": 200, "seed": 1}}]})
