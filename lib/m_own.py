"""Ownership pipeline (C12): dynamic half (mappings live exactly as long as reachable) and static half (rustc)."""
import os
import subprocess
from vlib import *

TLA = os.path.join(SPEC, "MC_Ownership.tla")
TRACE_TLA = os.path.join(SPEC, "Trace_Ownership.tla")


def judge(ctx, name, events):
    mism = validate_trace(ctx, TRACE_TLA, os.path.join(SPEC, "Trace_Ownership.C12.cfg"), name, events, encode=False, timeout=3000)
    for m in mism:
        i, tag, exp = m[0], m[1], m[2]
        ev = events[i - 1]
        j = i - 1
        while events[j]["op"] != "init":
            j -= 1
        ctx.mismatch({"module": "Ownership", "tag": tag, "op": ev["op"], "a": ev["a"], "r": ev["r"], "observed_maps": ev["s"]["maps"]},
                     {"module": "own", "program": [{"op": e["op"], "a": e["a"]} for e in events[j:i]], "expected": exp, "observed": ev})


def judge_chunks(ctx, name, events, size=100000):
    chunk, k = [], 0
    for h in split_events(events):
        chunk += h
        if len(chunk) > size:
            judge(ctx, "%s_%d" % (name, k), chunk)
            chunk, k = [], k + 1
    if chunk:
        judge(ctx, "%s_%d" % (name, k), chunk)


def rnd_history(rnd, nops):
    prog = [{"op": "init", "a": {}}]
    nmaps = 0
    for _ in range(nops):
        k = rnd.random()
        s = lambda: rnd.randint(1, 12)
        if k < 0.15 and nmaps < 4:
            # var: how a raw mapping is described to the builder (true flags / builder defaults / flags + backing file)
            prog.append({"op": "create", "a": {"kind": rnd.choice(["owned", "owned", "owned", "owned_huge", "raw", "raw", "raw", "failed_build", "failed_wrap"]),
                                               "var": rnd.randint(0, 2)}})
            nmaps += 1
        elif k < 0.27:
            n = rnd.choice([1, 2, 2, 3])
            prog.append({"op": "build_map", "a": {"slots": sorted(set(s() for _ in range(n)))}})
        elif k < 0.35:
            prog.append({"op": "insert", "a": {"m": s(), "r": s()}})
        elif k < 0.43:
            prog.append({"op": "remove", "a": {"m": s(), "i": rnd.randint(1, 3)}})
        elif k < 0.53:
            prog.append({"op": "clone", "a": {"s": s(), "via": rnd.randint(0, 2)}})   # via: Clone / GuestAddressSpace::memory()
        elif k < 0.60:
            prog.append({"op": "make_atomic", "a": {"m": s()}})
        elif k < 0.68:
            prog.append({"op": "snapshot", "a": {"a": s()}})
        elif k < 0.74:
            prog.append({"op": "replace", "a": {"a": s(), "m": s()}})
        elif k < 0.90:
            prog.append({"op": "drop", "a": {"s": s()}})
        else:
            prog.append({"op": "read", "a": {"s": s()}})
    order = list(range(1, 40))
    rnd.shuffle(order)
    prog += [{"op": "drop", "a": {"s": i}} for i in order]
    return prog


def dynamic(ctx):
    r = tlc_must_pass(TLA, os.path.join(SPEC, "MC_Ownership.quick.cfg"), "mc_own", workers=8, timeout=900)
    ctx.add_mc(r, "MC_Ownership.quick.cfg")
    ctx.cov["exhaustive"] = True
    cfg = "Gen_Ownership.quick.cfg" if ctx.tier == "quick" else "Gen_Ownership.thorough.cfg"
    r, inits, edges = gen_run(TLA, os.path.join(SPEC, cfg), "gen_own", workers=8, timeout=1800)
    ctx.add_mc(r, cfg)
    tests = edges_to_tests(inits, edges, 12000 if ctx.tier == "quick" else 150000, ctx.seed)
    prog = []
    for n, t in enumerate(tests):
        # (a raw mapping is described to the builder in one of three ways, rotating over the tests)
        prog += [{"op": s["op"], "a": dict(s["a"], var=(n + i) % 3) if s["op"] == "create" else dict(s["a"], via=(n + i) % 3) if s["op"] == "clone" else s["a"]} for i, s in enumerate(t["steps"])]
        # quiescence: drop every handle (in one of two orders) - everything owned must be gone, raw still mapped
        nsl = len(t["exp"][-1]["slots"])
        order = list(range(1, nsl + 1))
        if n % 2:
            order.reverse()
        prog += [{"op": "drop", "a": {"s": i}} for i in order if t["exp"][-1]["slots"][i - 1]["k"] != "dead"]
    events = run_harness("own", prog, os.path.join(WORK, "gen_own.ev.ndjson"), ctx=ctx)
    judge_chunks(ctx, "gent_own", events)
    ctx.cov["gen_tests_replayed"] += len(tests)
    ctx.cov["traces_validated_against_impl"] += len(tests)
    ctx.cov["gen_edges"] = len(edges)
    ctx.sample({"kind": "spec-generated ownership history (then every handle dropped)", "steps": tests[len(tests) // 2]["steps"]})
    log("[gen] %s: %d edges -> %d tests, %d events" % (cfg, len(edges), len(tests), len(events)))
    nhist, nops = (300, 30) if ctx.tier == "quick" else (6000, 45)
    prog = []
    for _ in range(nhist):
        prog += rnd_history(ctx.rnd, nops)
    events = run_harness("own", prog, os.path.join(WORK, "tr_own.ev.ndjson"), ctx=ctx)
    applicable = sum(1 for e in events if e["r"].get("k") == "ok")
    judge_chunks(ctx, "tr_own", events)
    ctx.cov["traces_validated_against_impl"] += nhist
    ctx.cov["random_ops_applicable"] = applicable
    ctx.sample({"kind": "recorded ownership history validated by Trace_Ownership",
                "events": [{"op": e["op"], "a": e["a"], "r": e["r"], "maps": e["s"]["maps"]} for e in events[1:8]]})


# ---------------------------------------------------------------------------
# static half: client programs labelled by Programs.tla, judged by rustc
# ---------------------------------------------------------------------------
GM = "GuestMemoryMmap::<()>::from_ranges(&[(GuestAddress(0), 4096)]).unwrap()"
SETUP = {
    "buffer_slice": "let mut owner = vec![0u8; 64];",
    "slice": "let mut owner = vec![0u8; 64]; let vs = VolatileSlice::from(&mut owner[..]);",
    "region": "let owner = MmapRegion::<()>::new(4096).unwrap();",
    "guest_region": "let owner = GuestRegionMmap::<()>::from_range(GuestAddress(0), 4096, None).unwrap();",
    "guest_memory": "let owner = %s;" % GM,
    "arc_memory": "let owner = std::sync::Arc::new(%s);" % GM,
    "snapshot": "let atomic = GuestMemoryAtomic::new(%s); let owner = atomic.memory();" % GM,
}


def derive(owner, acc):
    base = "vs" if owner == "slice" else "owner"
    if owner == "buffer_slice":
        return "VolatileSlice::from(&mut owner[..])"
    if owner in ("slice", "region"):
        return {"slice": base + ".get_slice(0, 8).unwrap()", "ref": base + ".get_ref::<u32>(0).unwrap()",
                "array": base + ".get_array_ref::<u16>(0, 4).unwrap()", "atomic": base + ".get_atomic_ref::<AtomicU32>(0).unwrap()",
                "guard": base + ".get_slice(0, 8).unwrap().ptr_guard()"}[acc]
    if owner == "guest_region":
        return {"slice": "owner.get_slice(MemoryRegionAddress(0), 8).unwrap()",
                "guard": "owner.get_slice(MemoryRegionAddress(0), 8).unwrap().ptr_guard()"}[acc]
    return {"slice": "owner.get_slice(GuestAddress(0), 8).unwrap()", "found_region": "owner.find_region(GuestAddress(0)).unwrap()",
            "region_slice": "owner.find_region(GuestAddress(0)).unwrap().get_slice(MemoryRegionAddress(0), 8).unwrap()"}[acc]


USE = {"slice": "acc.write_obj(1u8, 0).unwrap();", "region_slice": "acc.write_obj(1u8, 0).unwrap();", "ref": "acc.store(5u32);",
       "array": "acc.store(0, 1u16);", "atomic": "acc.store(1, Ordering::Relaxed);", "found_region": "let _ = acc.len();",
       "guard": "let _ = acc.as_ptr();"}
RET = {"slice": "VolatileSlice<'static, ()>", "region_slice": "VolatileSlice<'static, ()>", "ref": "VolatileRef<'static, u32, ()>",
       "array": "VolatileArrayRef<'static, u16, ()>", "atomic": "&'static AtomicU32", "found_region": "&'static GuestRegionMmap<()>",
       "guard": "vm_memory::volatile_memory::PtrGuard"}
HEADER = """#![allow(unused, dropping_copy_types, dropping_references)]
use std::sync::atomic::{AtomicU32, Ordering};
use vm_memory::{Bytes, GuestAddress, GuestAddressSpace, GuestMemory, GuestMemoryAtomic, GuestMemoryMmap, GuestMemoryRegion,
    GuestRegionMmap, MemoryRegionAddress, MmapRegion, VolatileArrayRef, VolatileMemory, VolatileRef, VolatileSlice};
"""


def render(p, name):
    setup, d, use = SETUP[p["owner"]], derive(p["owner"], p["acc"]), USE[p["acc"]]
    if p["shape"] == "use_then_drop":
        body = "%s let acc = %s; %s drop(owner);" % (setup, d, use)
        sig = "pub fn %s()" % name
    elif p["shape"] == "drop_then_use":
        body = "%s let acc = %s; drop(owner); %s" % (setup, d, use)
        sig = "pub fn %s()" % name
    elif p["shape"] == "move_then_use":
        body = "%s let acc = %s; let moved = owner; %s drop(moved);" % (setup, d, use)
        sig = "pub fn %s()" % name
    else:
        body = "%s let acc = %s; acc" % (setup, d)
        sig = "pub fn %s() -> %s" % (name, RET[p["acc"]])
    return "%s {\n    %s\n}\n" % (sig, body)


def cargo_check(src):
    path = os.path.join(HARNESS, "progs", "src", "lib.rs")
    with open(path, "w") as f:
        f.write(src)
    env = dict(os.environ, CARGO_NET_OFFLINE="true")
    p = subprocess.run(["cargo", "build", "--offline", "-q", "-p", "progs", "--message-format=json"], cwd=HARNESS, env=env,
                       stdout=subprocess.PIPE, stderr=subprocess.PIPE, text=True, timeout=900)
    errs = []
    for line in p.stdout.splitlines():
        try:
            m = json.loads(line)
        except ValueError:
            continue
        if m.get("reason") == "compiler-message" and m["message"]["level"] == "error":
            spans = [s for s in m["message"]["spans"] if s.get("is_primary") and s["file_name"].endswith("progs/src/lib.rs")]
            code = (m["message"].get("code") or {}).get("code")
            for s in spans:
                errs.append((s["line_start"], code, m["message"]["message"]))
    return p.returncode, errs, p.stderr


def static(ctx):
    r = tlc_must_pass(os.path.join(SPEC, "Programs.tla"), os.path.join(SPEC, "Programs.cfg"), "programs", workers=1, timeout=300)
    ctx.add_mc(r, "Programs.cfg")
    progs = parse_tagged(r.out_path, "PROGRAMS")[0][0]["all"]
    good = [p for p in progs if p["ok"]]
    bad = [p for p in progs if not p["ok"]]
    if len(bad) < 20 or len(good) < 10:
        raise ToolError("too few programs enumerated")
    # well-formed batch: must compile
    src, names = HEADER, []
    for i, p in enumerate(good):
        src += render(p, "good_%d" % i)
    rc, errs, stderr = cargo_check(src)
    if rc != 0:
        # a well-formed program that does not compile: either the harness templates or the API signatures changed
        for (line, code, msg) in errs[:5]:
            ctx.mismatch({"module": "Programs", "tag": "wellformed_rejected", "op": "compile", "a": {"line": line, "code": code}, "r": {"k": "err", "msg": msg[:200]}},
                         {"module": "programs", "source": src})
        if not errs:
            raise ToolError("well-formed batch failed to build: %s" % stderr[-1500:])
    # ill-formed batch: every function must be rejected by the borrow checker
    src = HEADER
    ranges = []
    for i, p in enumerate(bad):
        start = src.count("\n") + 1
        src += render(p, "bad_%d" % i)
        ranges.append((start, src.count("\n"), p))
    rc, errs, stderr = cargo_check(src)
    if rc == 0 and bad:
        errs = []
    borrow_codes = {"E0505", "E0597", "E0515", "E0499", "E0502", "E0506", "E0716", "E0521", "E0382", "E0713"}
    other = [e for e in errs if e[1] not in borrow_codes]
    if other:
        raise ToolError("ill-formed batch has non-borrow-check errors (templates broken?): %s" % other[:3])
    accepted = 0
    for (a, b, p) in ranges:
        hit = [e for e in errs if a <= e[0] <= b]
        if not hit:
            accepted += 1
            ctx.mismatch({"module": "Programs", "tag": "escaping_accessor_compiles", "op": "compile", "a": p, "r": {"k": "ok"}},
                         {"module": "programs", "program": render(p, "escaping"), "expected": "a borrow-check error"})
    # restore the placeholder so that the workspace always builds
    with open(os.path.join(HARNESS, "progs", "src", "lib.rs"), "w") as f:
        f.write("// generated by lib/m_own.py (C12 static half)\n")
    ctx.cov["programs_wellformed_compiled"] = len(good)
    ctx.cov["programs_illformed_rejected"] = len(bad) - accepted
    ctx.cov["traces_validated_against_impl"] += len(progs)
    ctx.sample({"kind": "ill-formed client program (must not compile)", "program": render(bad[0], "example"), "label": bad[0]})
    log("[programs] %d well-formed compiled, %d/%d ill-formed rejected by the borrow checker" % (len(good), len(bad) - accepted, len(bad)))


def run(ctx):
    dynamic(ctx)
    static(ctx)
    ctx.assumptions += [
        "mappings are observed through /proc/self/maps entries of uniquely named backing files (size not a page multiple, so a "
        "wrong munmap length shows); anonymous mappings are not tracked; 'exactly once' is observed as 'not mapped any more and "
        "no other mapping damaged', not by tracing munmap calls",
        "the compile-time half trusts rustc's borrow checker as the judge of the generated programs",
    ]
