"""Xen-build pipelines: XenGrant (C17 on-demand mappings; the Xen rows of C18/C07) and XenCtor (C15)."""
import os
from vlib import *

P = 4096
GUARDED = ["g_write", "g_read", "g_write_obj", "g_read_obj", "g_read_from", "g_write_to", "g_read_from_fd", "g_write_to_fd", "s_ref_store", "s_ref_load",
           "s_arr_copy_from", "s_arr_copy_to", "s_arr_store", "s_arr_load", "s_copy_from_u8", "s_copy_to_u8", "ptr_guard"]
UNGUARDED = ["g_store", "g_load", "s_get_atomic_ref", "s_aligned_as_ref", "s_copy_to_volatile_slice", "s_arr_copy_to_volatile_slice"]


HIGH = 1 << 32


def rebase(events):
    """Histories on regions at or above 4 GiB are shifted down by 4 GiB before TLC sees them (its integers are 32-bit; the
    specification is invariant under a shift by a multiple of the page size).  Device requests that the code computed too
    low come out negative and fail the coverage rule."""
    k = 0
    for e in events:
        if e["op"] == "init":
            k = HIGH if e["a"]["base"] >= HIGH else 0
            e["a"]["base"] -= k
        elif k and isinstance(e.get("a"), dict) and "addr" in e["a"]:
            e["a"]["addr"] -= k
        if k:
            for lst in (e.get("dev") or [], (e.get("r") or {}).get("during") or []):
                for d in lst:
                    if "index" in d:
                        d["index"] -= k


def rnd_op(rnd, base, size, zero):
    def off(n=0):
        # offsets around page boundaries and the ends of the region
        c = [0, 1, P - 9, P - 8, P - 4, P - 1, P, P + 1, 2 * P - 3, 2 * P, size - 16, size - 8, size - 1, rnd.randint(0, size - 1)]
        o = rnd.choice(c)
        return max(0, min(o, size - n)) if n else max(0, min(o, size - 1))

    def buf(n):
        sd = rnd.randint(1, 250)
        return [((sd + i * 3) % 251) + 1 for i in range(n)]

    op = rnd.choice(GUARDED + GUARDED + UNGUARDED)
    ln = rnd.choice([1, 2, 3, 4, 7, 8, 9, 16, 17, 33])
    if zero and rnd.random() < 0.4:
        ln = 0
    if op == "g_write":
        return op, {"addr": base + off(), "buf": buf(ln)}
    if op == "g_read":
        return op, {"addr": base + off(), "bl": ln}
    if op == "g_write_obj":
        e = rnd.choice([1, 2, 3, 4, 8, 16] + ([0] if zero else []))
        return op, {"addr": base + off(e), "buf": buf(e)}
    if op == "g_read_obj":
        e = rnd.choice([1, 2, 3, 4, 8, 16] + ([0] if zero else []))
        return op, {"addr": base + off(e), "esz": e}
    if op in ("g_read_from", "g_read_from_fd"):
        return op, {"addr": base + off(), "src": buf(rnd.choice([0, 1, 5, 9, 40])), "count": ln}
    if op in ("g_write_to", "g_write_to_fd"):
        return op, {"addr": base + off(), "count": ln}
    if op in ("g_store",):
        e = rnd.choice([1, 2, 4, 8])
        return op, {"addr": base + (off(e) // e) * e, "buf": buf(e)}
    if op in ("g_load",):
        e = rnd.choice([1, 2, 4, 8])
        return op, {"addr": base + (off(e) // e) * e, "esz": e}
    if op == "s_ref_store":
        e = rnd.choice([1, 2, 3, 4, 8, 16])
        return op, {"off": off(e), "buf": buf(e)}
    if op == "s_ref_load":
        e = rnd.choice([1, 2, 3, 4, 8, 16])
        return op, {"off": off(e), "esz": e}
    if op in ("s_arr_copy_from", "s_arr_copy_to", "s_arr_store", "s_arr_load"):
        e = rnd.choice([1, 2, 4, 8, 16])
        n = rnd.choice([1, 2, 3, 5])
        a = {"off": off(n * e), "n": n, "esz": e}
        if op == "s_arr_copy_from":
            a["buf"] = buf(n * e)
        if op in ("s_arr_store", "s_arr_load"):
            a["i"] = rnd.randint(0, n - 1)
        if op == "s_arr_store":
            a["buf"] = buf(e)
        return op, a
    if op == "s_copy_from_u8":
        return op, {"off": off(ln), "len": ln, "buf": buf(rnd.choice([ln, ln + 3, max(ln - 1, 0)]))}
    if op == "s_copy_to_u8":
        return op, {"off": off(ln), "len": ln, "bl": rnd.choice([ln, ln + 3, max(ln - 1, 0)])}
    if op == "ptr_guard":
        n = rnd.choice([1, 8, 20, 64] + ([0] if zero else []))
        return op, {"off": off(n), "len": n}
    if op in ("s_get_atomic_ref", "s_aligned_as_ref"):
        e = rnd.choice([1, 2, 4, 8])
        return op, {"off": (off(e) // e) * e, "esz": e}
    n = rnd.choice([2, 8, 16, 32])
    return op, {"off": off(n), "len": n, "to": (off(n) + 2 * P) % (size - n)}


def xgrant(ctx, zero=False):
    r = tlc_must_pass(os.path.join(SPEC, "XenGrant.tla"), os.path.join(SPEC, "MC_XenGrant.cfg"), "mc_xengrant", workers=4, timeout=600)
    ctx.add_mc(r, "MC_XenGrant.cfg")
    ctx.cov["exhaustive"] = True
    nhist, nops = (40, 60) if ctx.tier == "quick" else (600, 120)
    prog = []
    for h in range(nhist):
        kind = ["ondemand", "ondemand", "ondemand", "advance", "unix", "foreign"][h % 6]
        base = 2 * P if kind != "foreign" else 0
        if kind in ("ondemand", "advance") and h % 12 >= 6:
            base += HIGH          # grant references of guest pages at and above 4 GiB
        size = 4 * P
        prog.append({"op": "init", "a": {"kind": kind, "pages": 8, "base": base, "size": size}})
        for _ in range(nops):
            op, a = rnd_op(ctx.rnd, base, size, zero)
            prog.append({"op": op, "a": a})
        prog.append({"op": "drop", "a": {}})
    events = run_harness("xgrant", prog, os.path.join(WORK, "xgrant_%s.ev.ndjson" % ctx.pid), pkg="vmh-xen", timeout=1800, ctx=ctx)
    rebase(events)
    mism = validate_trace(ctx, os.path.join(SPEC, "Trace_XenGrant.tla"), os.path.join(SPEC, "Trace_XenGrant.%s.cfg" % ctx.pid),
                          "tr_xengrant_" + ctx.pid, events, encode=False, timeout=1800)
    for m in mism:
        i, tag, exp = m[0], m[1], m[2]
        ev = events[i - 1]
        j = i - 1
        while events[j]["op"] != "init":
            j -= 1
        ctx.mismatch({"module": "XenGrant", "tag": tag, "op": ev["op"], "a": ev["a"], "r": ev["r"], "kind": events[j]["a"]["kind"],
                      "dev": ev.get("dev")},
                     {"module": "xgrant", "pkg": "vmh-xen", "program": [events[j]] and [{"op": e["op"], "a": e["a"]} for e in (events[j], ev)],
                      "expected": exp, "observed": ev})
    ctx.cov["traces_validated_against_impl"] += nhist
    ondemand_ok = sum(1 for e in events if e["op"] not in ("init", "drop") and e["r"].get("k") == "ok" and e.get("dev"))
    ctx.cov["on_demand_accesses_with_device_traffic"] = ondemand_ok
    if ondemand_ok < 50 and not ctx.violations:
        raise ToolError("the emulated grant device saw almost no traffic (%d accesses)" % ondemand_ok)
    ctx.sample({"kind": "on-demand accesses with the emulated grant device log",
                "events": [{"op": e["op"], "a": e["a"], "r": e["r"], "dev": e.get("dev")} for e in events[1:5]]})
    ctx.assumptions += ["the Xen grant / privcmd devices are emulated (hook): a grant reference is the page of the same number of the "
                        "backing file; the real kernel interface is not available in this sandbox"]


# ---------------------------------------------------------------------------
# C15: region construction
# ---------------------------------------------------------------------------
def xctor(ctx):
    r = tlc_must_pass(os.path.join(SPEC, "XenCtor.tla"), os.path.join(SPEC, "MC_XenCtor.cfg"), "mc_xenctor", workers=8, timeout=900)
    ctx.add_mc(r, "MC_XenCtor.cfg")
    ctx.cov["exhaustive"] = True
    rnd = ctx.rnd
    sizes = [0, 1, 4095, 4096, 4097, 8192]
    flens = [0, 4096, 8192, 8193]
    foffs = [0, 1, 4096, 8192, U64 - 4096, U64 - 1, (1 << 63), (1 << 63) - 4096]
    if ctx.tier == "thorough":
        sizes += [2, 4094, 8191, 8193, 12288, 65536]
        flens += [1, 4095, 4097, 12288, 65536]
        foffs += [2, 4095, 4097, 12288, U64 - 4097, U64 - 8192, (1 << 63) + 4096]
    # standard build: the full product for builder rows, the convenience constructors on a subset
    prog = []
    for kind in ("anon", "file", "raw"):
        for size in sizes:
            for fixed in (False, True):
                if kind == "anon":
                    for api in ("builder", "new", "build"):
                        prog.append({"op": "build", "a": {"kind": kind, "api": api, "size": size, "flen": 0, "foff": 0, "fixed": fixed, "misalign": 0}})
                elif kind == "raw":
                    for mis in (0, 1, 2048, 4095):
                        for api in ("builder", "build_raw"):
                            prog.append({"op": "build", "a": {"kind": kind, "api": api, "size": size, "flen": 0, "foff": 0, "fixed": fixed, "misalign": mis}})
                else:
                    for flen in flens:
                        for foff in foffs:
                            for api in ("builder", "from_file", "build"):
                                prog.append({"op": "build", "a": {"kind": kind, "api": api, "size": size, "flen": flen, "foff": foff, "fixed": fixed, "misalign": 0}})
                            for huge in (True, False):      # the builder's hugetlbfs hint: same decisions, hint reported back
                                prog.append({"op": "build", "a": {"kind": kind, "api": "builder", "size": size, "flen": flen, "foff": foff, "fixed": fixed,
                                                                  "misalign": 0, "huge": huge}})
    # giving a mapping its guest range: bases around 2^64 - size (both builds)
    wraps = []
    for size in (1, 4095, 4096, 4097, 8192):
        for gbase in (0, 4096, 1 << 63, U64 - size - 4096, U64 - size - 1, U64 - size, U64 - size + 1, U64 - 2, U64 - 1):
            if 0 <= gbase < U64:
                for api in ("new", "from_range_file", "from_range_anon"):
                    wraps.append({"op": "wrap", "a": {"size": size, "gbase": gbase, "api": api}})
    prog += wraps
    prog.append({"op": "race", "a": {"threads": 4, "rounds": 20000 if ctx.tier == "quick" else 200000}})
    ev_unix = run_harness("ctor", prog, os.path.join(WORK, "ctor.ev.ndjson"), ctx=ctx)
    # Xen build: all 32 flag words x file / offset / size / device failures
    prog = []
    for mflags in range(32):
        for file in (True, False):
            for size in (0, 4096, 4097, 8192):
                for foff in ((0, 4096, 1, U64 - 4096) if file else (0,)):
                    for flen in ((8192, 4096) if file else (0,)):
                        for fixed in (False, True):
                            for fail in ("", "map", "foreign"):
                                if fail and (fixed or not file or size == 0):
                                    continue
                                prog.append({"op": "from_range", "a": {"mflags": mflags, "file": file, "size": size, "flen": flen, "foff": foff,
                                                                       "fixed": fixed, "fail": fail, "base": 0, "defaults": (mflags + size) % 2 == 0,
                                                                       "badflags": False}})
    # the requested protection is reported back and applied, whatever it is (0 = PROT_NONE, 1 = read-only, 3)
    for mflags in (0, 1, 2, 10):
        for prot in (0, 1, 3):
            for file in ((True, False) if mflags == 0 else (True,)):
                prog.append({"op": "from_range", "a": {"mflags": mflags, "file": file, "size": 4096, "flen": 8192, "foff": 0, "fixed": False, "fail": "",
                                                       "base": 0, "defaults": False, "badflags": False, "prot": prot}})
    prog += wraps
    ev_xen = run_harness("xctor", prog, os.path.join(WORK, "xctor.ev.ndjson"), pkg="vmh-xen", ctx=ctx)
    events = ev_unix + ev_xen
    mism = validate_trace(ctx, os.path.join(SPEC, "Trace_XenCtor.tla"), os.path.join(SPEC, "Trace_XenCtor.C15.cfg"), "tr_xenctor", events, timeout=1800)
    for m in mism:
        ev = events[m[0] - 1]
        ctx.mismatch({"module": "XenCtor", "tag": m[1], "op": ev["op"], "a": ev["a"], "r": ev["r"]},
                     {"module": "ctor" if (m[0] <= len(ev_unix)) else "xctor", "pkg": "vmh" if (m[0] <= len(ev_unix)) else "vmh-xen",
                      "program": [{"op": ev["op"], "a": ev["a"]}], "expected": m[2], "observed": ev})
    ctx.cov["traces_validated_against_impl"] += len(events)
    ctx.cov["unix_rows"] = len(ev_unix)
    ctx.cov["xen_rows"] = len(ev_xen)
    ok_rows = sum(1 for e in events if e["r"].get("k") == "ok")
    ctx.cov["accepted_rows"] = ok_rows
    ctx.sample({"kind": "construction rows replayed on the real constructors", "events": [ev_unix[len(ev_unix) // 2], ev_xen[len(ev_xen) // 3]]})
    ctx.assumptions += ["kernel-side refusals (empty mappings, offsets that are not page multiples) are modelled as the Mmap error",
                        "Xen devices are emulated (hook); hugetlbfs attributes are not exercised"]
