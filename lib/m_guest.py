"""GuestMem module pipeline (C02, C03, and the guest-memory level of C05, C16, C18, C07)."""
import os
from vlib import *

TLA = os.path.join(SPEC, "MC_GuestMem.tla")
TRACE_TLA = os.path.join(SPEC, "Trace_GuestMem.tla")
BIG = [U64 - 1, U64 - 2, U64 - 8, (1 << 63), (1 << 63) - 1, (1 << 63) + 1]


def mc(ctx):
    cfgs = ["MC_GuestMem.quick.cfg"] if ctx.tier == "quick" else ["MC_GuestMem.quick.cfg", "MC_GuestMem.thorough.cfg"]
    for c in cfgs:
        r = tlc_must_pass(TLA, os.path.join(SPEC, c), "mc_guest_" + ctx.pid, workers=8, timeout=3000)
        ctx.add_mc(r, c)
    # non-vacuity: the loop as originally written (continuing at address 0 after wrapping) must be refuted
    r = tlc(TLA, os.path.join(SPEC, "MC_GuestMem.neg_wrap.cfg"), "mc_guest_neg_" + ctx.pid, workers=4, timeout=900)
    if r.ok:
        raise ToolError("negative configuration MC_GuestMem.neg_wrap.cfg was not refuted: the TryAccess lemma is vacuous")
    ctx.cov["negative_configs_refuted"] = ctx.cov.get("negative_configs_refuted", 0) + 1
    ctx.cov["exhaustive"] = True


def judge(ctx, name, events):
    cfg = os.path.join(SPEC, "Trace_GuestMem.%s.cfg" % ctx.pid)
    mism = validate_trace(ctx, TRACE_TLA, cfg, name, events, timeout=3000)
    for m in mism:
        i, tag, exp = m[0], m[1], m[2]
        ev = events[i - 1]
        j = i - 1
        while events[j]["op"] != "init":
            j -= 1
        sig = {"module": "GuestMem", "tag": tag, "op": ev["op"], "a": ev["a"], "r": ev["r"], "init": events[j]["a"]}
        ctx.mismatch(sig, {"module": "guest", "program": [{"op": e["op"], "a": e["a"]} for e in events[j:i]],
                           "expected": exp, "observed": ev})
    for d in parse_tagged(os.path.join(WORK, name + ".out"), "DRIFT")[:20]:
        ev = events[d[0] - 1]
        ctx.drift("%s %s: error variant %s, specification %s" % (ev["op"], json.dumps(ev["a"]), ev["r"].get("e"),
                                                                  d[2]["res"].get("e")))
    return mism


def judge_chunks(ctx, name, events, size=60000):
    chunk, k = [], 0
    for h in split_events(events):
        chunk += h
        if len(chunk) > size:
            judge(ctx, "%s_%d" % (name, k), chunk)
            chunk, k = [], k + 1
    if chunk:
        judge(ctx, "%s_%d" % (name, k), chunk)


def gen(ctx):
    cfgs = ["Gen_GuestMem.quick.cfg"] if ctx.tier == "quick" else ["Gen_GuestMem.quick.cfg", "Gen_GuestMem.thorough.cfg"]
    for cfg in cfgs:
        r, inits, edges = gen_run(TLA, os.path.join(SPEC, cfg), "gen_guest_" + ctx.pid, workers=8, timeout=3000)
        ctx.add_mc(r, cfg)
        hists, covered = edges_to_histories(inits, edges, chunk=400)
        prog = [{"op": a["op"], "a": a["a"]} for h in hists for a in h]
        # a third of the mmap layouts are replayed on file-backed regions as well
        extra = []
        for n, h in enumerate(hists):
            if h[0]["a"]["be"] == "mmap" and n % 3 == 0:
                extra.append([{"op": "init", "a": dict(h[0]["a"], be="mmapfile")}] + [{"op": a["op"], "a": a["a"]} for a in h[1:]])
        prog += [x for h in extra for x in h]
        events = adjust_shrunk(run_harness("guest", prog, os.path.join(WORK, "gen_guest_%s.ev.ndjson" % ctx.pid), ctx=ctx))
        if len(events) != len(prog) and ctx.violations == 0:
            raise ToolError("harness returned %d events for %d program lines" % (len(events), len(prog)))
        judge_chunks(ctx, "gent_guest_" + ctx.pid, events, 120000)
        ctx.cov["gen_tests_replayed"] += covered
        ctx.cov["traces_validated_against_impl"] += len(hists) + len(extra)
        ctx.cov.setdefault("gen_edges", 0)
        ctx.cov["gen_edges"] += len(edges)
        if hists:
            ctx.sample({"kind": "spec-generated transition tests from one state", "config": cfg,
                        "steps": hists[len(hists) // 2][:8]})
        log("[gen] %s: %d edges -> %d histories (+%d file-backed), %d events" % (cfg, len(edges), len(hists), len(extra), len(events)))


def rnd_layout(rnd, be):
    k = rnd.choice([1, 1, 2, 2, 3, 4])
    zones = rnd.choice([["low"], ["low"], ["top"], ["mid"], ["low", "top"], ["low", "mid", "top"], ["low", "top"]])
    lay = []
    per = max(1, k // len(zones))
    for z in zones:
        sizes = [rnd.choice([1, 2, 3, 5, 8, 9, 16, 17, 32, 40]) for _ in range(per)]
        gaps = [rnd.choice([0, 0, 1, 2, 5, 100]) for _ in range(per)]
        if z == "low":
            a = rnd.choice([0, 0, 1, 7, 4096])
            for sz, g in zip(sizes, gaps):
                lay.append([a, sz])
                a += sz + g
        elif z == "mid":
            a = (1 << 63) - rnd.choice([0, 1, 8, 50])
            for sz, g in zip(sizes, gaps):
                lay.append([a, sz])
                a += sz + g
        else:
            # pack downwards from the top of the address space
            # (a region ending exactly at 2^64 is refused by GuestRegionMmap::new; the executor then builds it one byte shorter and
            # says so - see adjust_shrunk - but a tree that accepts it gets its lookups exercised on that layout)
            end = U64 if (be == "custom" and rnd.random() < 0.6) or (be != "custom" and sizes[0] >= 2 and rnd.random() < 0.25) else U64 - rnd.choice([1, 1, 2, 9])
            tmp = []
            for sz, g in zip(sizes, gaps):
                tmp.append([end - sz, sz])
                end -= sz + g
            lay += list(reversed(tmp))
    lay.sort()
    return lay


def rnd_history(rnd, nops, zst, xen=False):
    be = rnd.choice(["mmap", "mmap", "custom", "custom", "mmapfile"])
    p = rnd.choice([1, 2, 3, 8, 64, 4096])
    if xen:
        # the Xen build's UNIX mapping type: anonymous or file-backed, bitmap at the system page size
        be = rnd.choice(["mmap", "mmapfile"])
        p = 4096
    lay = rnd_layout(rnd, be)
    prog = [{"op": "init", "a": {"be": be, "p": p, "lay": lay, "via": rnd.choice(["direct", "insert", "remove", "remove"])}}]
    if be != "custom" and lay and lay[-1][0] + lay[-1][1] < U64 and rnd.random() < 0.2:
        # the convenience constructor from_ranges_with_files (its bitmap has the host page size)
        prog[0]["a"]["via"] = "ranges"
        prog[0]["a"]["p"] = p = 4096
    if be == "custom":
        # a foreign backend stores (and iterates) its regions in any order; the provided methods must not care
        prog[0]["a"]["perm"] = rnd.choice(["id", "rev", "rot"])

    def addr():
        if rnd.random() < 0.85:
            s, n = rnd.choice(lay)
            v = rnd.choice([s - 1, s, s + 1, s + n - 1, s + n, s + n + 1, s + n // 2, s + rnd.randint(0, n)])
            return min(max(v, 0), U64 - 1)
        return rnd.choice([0, 1, U64 - 1, (1 << 63), (1 << 63) - 1, U64 - 8])

    def cnt():
        if rnd.random() < 0.85:
            s, n = rnd.choice(lay)
            return rnd.choice([0, 1, 2, 3, n - 1, n, n + 1, n + 2, n + 7, 2 * n, rnd.randint(0, 48)])
        return rnd.choice(BIG)

    def blen():
        s, n = rnd.choice(lay)
        return rnd.choice([0, 1, 2, 3, 7, 8, 9, n - 1, n, n + 1, n + 5, rnd.randint(0, 48)])

    def roff(n):
        return rnd.choice([0, 1, 2, n - 1, n, n + 1, n // 2, rnd.randint(0, n), rnd.choice(BIG)]) if rnd.random() < 0.95 else U64 - 1

    def esz():
        if zst and rnd.random() < 0.25:
            return 0
        return rnd.choice([1, 2, 3, 4, 5, 6, 7, 8, 12, 16])

    def buf(n):
        sd = rnd.randint(0, 250)
        return [((sd + i * 7) % 251) + 1 for i in range(max(n, 0))]

    for _ in range(nops):
        k = rnd.random()
        ri = rnd.randint(1, len(lay))
        rn = lay[ri - 1][1]
        if k < 0.04 and TA_CB:
            # the public try_access with a client callback answering from a script (it may claim more than it was offered)
            op = "try_access_cb"
            sc = []
            for _ in range(rnd.choice([0, 0, 1, 1, 2, 3])):
                b = rnd.choice(["full", "full", "n", "n", "n", "zero", "err"])
                sc.append({"b": "n", "k": rnd.choice([1, 1, 2, 3, 4, 7, 9, 40])} if b == "n" else {"b": b})
            a = {"addr": addr(), "count": max(cnt(), 0) % 200, "script": sc}
        elif k < 0.08:
            # transfers against a stream that delivers short counts / interruptions / errors (same actions as C14)
            if rnd.random() < 0.6:
                op = rnd.choice(["s_read_from", "s_read_exact_from", "s_write_to", "s_write_all_to"])
                a = {"addr": addr(), "count": max(cnt() if rnd.random() < 0.9 else 3, 0) % 200, "script": rnd_script(rnd)}
            else:
                op = rnd.choice(["rs_read_from", "rs_read_exact_from", "rs_write_to", "rs_write_all_to"])
                a = {"ri": ri, "addr": min(roff(rn), rn + 1), "count": rnd.choice([0, 1, 2, rn - 1, rn, rn + 1, 7]), "script": rnd_script(rnd)}
        elif k < 0.28:
            op = rnd.choice(["find_region", "to_region_addr", "address_in_range", "check_address", "checked_offset",
                             "check_range", "check_range", "last_addr", "get_host_address", "get_slice", "get_slice",
                             "num_regions", "iter"])
            if op in ("find_region", "to_region_addr", "address_in_range", "check_address", "get_host_address"):
                a = {"addr": addr()}
            elif op == "checked_offset":
                a = {"base": addr(), "off": cnt()}
            elif op == "check_range":
                a = {"base": addr(), "len": cnt()}
            elif op == "get_slice":
                a = {"addr": addr(), "count": cnt()}
            else:
                a = {}
        elif k < 0.40:
            op = rnd.choice(["r_last_addr", "r_address_in_range", "r_check_address", "r_checked_offset", "r_to_region_addr",
                             "r_get_host_address", "r_get_slice"])
            if op == "r_last_addr":
                a = {"ri": ri}
            elif op == "r_to_region_addr":
                a = {"ri": ri, "addr": addr()}
            elif op == "r_checked_offset":
                a = {"ri": ri, "base": roff(rn), "off": cnt()}
            elif op == "r_get_slice":
                a = {"ri": ri, "off": roff(rn), "count": cnt()}
            else:
                a = {"ri": ri, "addr": roff(rn)}
        elif k < 0.85:
            op = rnd.choice(["write", "write", "read", "read", "write_slice", "read_slice", "write_obj", "read_obj", "store",
                             "load", "read_volatile_from", "read_exact_volatile_from", "write_volatile_to",
                             "write_all_volatile_to", "bitmap_reset"])
            if op in ("write", "write_slice"):
                a = {"addr": addr(), "buf": buf(blen())}
            elif op in ("read", "read_slice"):
                a = {"addr": addr(), "bl": max(blen(), 0)}
            elif op == "write_obj":
                a = {"addr": addr(), "buf": buf(esz())}
            elif op == "read_obj":
                a = {"addr": addr(), "esz": esz()}
            elif op == "store":
                a = {"addr": addr(), "buf": buf(rnd.choice([1, 2, 4, 8]))}
            elif op == "load":
                a = {"addr": addr(), "esz": rnd.choice([1, 2, 4, 8])}
            elif op in ("read_volatile_from", "read_exact_volatile_from"):
                a = {"addr": addr(), "src": buf(rnd.choice([0, 1, 2, 5, 8, 9, 17, 40, 90])), "count": cnt()}
            elif op in ("write_volatile_to", "write_all_volatile_to"):
                a = {"addr": addr(), "count": cnt()}
            else:
                a = {}
        else:
            op = rnd.choice(["r_write", "r_read", "r_write_slice", "r_read_slice", "r_write_obj", "r_read_obj", "r_store",
                             "r_load", "r_read_volatile_from", "r_write_volatile_to"])
            if op in ("r_write", "r_write_slice"):
                a = {"ri": ri, "addr": roff(rn), "buf": buf(blen())}
            elif op in ("r_read", "r_read_slice"):
                a = {"ri": ri, "addr": roff(rn), "bl": max(blen(), 0)}
            elif op == "r_write_obj":
                a = {"ri": ri, "addr": roff(rn), "buf": buf(esz())}
            elif op == "r_read_obj":
                a = {"ri": ri, "addr": roff(rn), "esz": esz()}
            elif op == "r_store":
                a = {"ri": ri, "addr": roff(rn), "buf": buf(rnd.choice([1, 2, 4, 8]))}
            elif op == "r_load":
                a = {"ri": ri, "addr": roff(rn), "esz": rnd.choice([1, 2, 4, 8])}
            elif op == "r_read_volatile_from":
                a = {"ri": ri, "addr": roff(rn), "src": buf(rnd.choice([0, 1, 5, 9, 40])), "count": cnt()}
            else:
                a = {"ri": ri, "addr": roff(rn), "count": cnt()}
        prog.append({"op": op, "a": a})
    return prog


def adjust_shrunk(events):
    """The executor reports when the crate refused a region ending exactly at 2^64 and it built the region one byte shorter:
    the layout the trace is judged against is the one that exists."""
    for e in events:
        if e["op"] == "init" and isinstance(e.get("r"), dict) and e["r"].get("shrunk"):
            lay = e["a"]["lay"]
            i = max(range(len(lay)), key=lambda k: lay[k][0])
            lay[i] = [lay[i][0], lay[i][1] - 1]
    return events


TA_CB = False


def traces(ctx, zst=None, release=False):
    global TA_CB
    TA_CB = ctx.pid in ("C03", "C07")
    if zst is None:
        zst = ctx.pid in ("C18", "C07")
    nhist, nops = (250, 50) if ctx.tier == "quick" else (4000, 70)
    prog = []
    for _ in range(nhist):
        prog += rnd_history(ctx.rnd, nops, zst)
    events = adjust_shrunk(run_harness("guest", prog, os.path.join(WORK, "tr_guest_%s.ev.ndjson" % ctx.pid), ctx=ctx, release=release))
    judge_chunks(ctx, "tr_guest_" + ctx.pid + ("r" if release else ""), events)
    ctx.cov["traces_validated_against_impl"] += nhist
    ctx.sample({"kind": "recorded history validated by Trace_GuestMem", "events":
                [{"op": e["op"], "a": e["a"], "r": e["r"]} for e in events[:10]]})


def traces_xen(ctx):
    """The same boundary-biased histories on regions built by the Xen build's MmapRegion::from_range (UNIX mapping type)."""
    nhist, nops = (80, 50) if ctx.tier == "quick" else (1500, 70)
    prog = []
    for _ in range(nhist):
        prog += rnd_history(ctx.rnd, nops, False, xen=True)
    events = adjust_shrunk(run_harness("guest", prog, os.path.join(WORK, "tr_guestx_%s.ev.ndjson" % ctx.pid), pkg="vmh-xen", ctx=ctx))
    judge_chunks(ctx, "tr_guestx_" + ctx.pid, events)
    ctx.cov["traces_validated_against_impl"] += nhist
    ctx.cov["xen_unix_histories"] = nhist


def run(ctx):
    mc(ctx)
    gen(ctx)
    traces(ctx)
    if ctx.pid in ("C02", "C03"):
        traces_xen(ctx)
    ctx.assumptions += [
        "TLC explores layouts exhaustively only in an 8-address universe (<=3 regions of <=3 bytes); large layouts and "
        "the 2^63 / 2^64 boundaries are covered by recorded traces in band encoding",
        "the custom backend of the harness stands for 'any implementation relying on the provided default methods'",
    ]


# ---------------------------------------------------------------------------
# C14: scripted streams
# ---------------------------------------------------------------------------
def rnd_script(rnd):
    n = rnd.choice([0, 1, 1, 2, 2, 3, 4, 5, 6])
    out = []
    for _ in range(n):
        k = rnd.random()
        if k < 0.3:
            out.append({"b": "short", "k": rnd.choice([1, 1, 2, 3, 5, 8, 9])})
        elif k < 0.55:
            out.append({"b": "eintr"})
        elif k < 0.7:
            out.append({"b": "full"})
        elif k < 0.85:
            out.append({"b": "zero"})
        else:
            out.append({"b": "err"})
    return out


def rnd_history_c14(rnd, nops):
    be = rnd.choice(["mmap", "mmap", "custom", "mmapfile"])
    p = rnd.choice([1, 2, 8, 4096])
    lay = rnd_layout(rnd, be)
    prog = [{"op": "init", "a": {"be": be, "p": p, "lay": lay}}]
    for _ in range(nops):
        s, n = rnd.choice(lay)
        addr = min(max(rnd.choice([s - 1, s, s + 1, s + n - 1, s + n, s + n // 2, s + rnd.randint(0, n)]), 0), U64 - 1)
        count = rnd.choice([0, 1, 2, 3, n - 1, n, n + 1, n + 2, n + 9, 2 * n + 3, rnd.randint(0, 60)])
        ri = rnd.randint(1, len(lay))
        rn = lay[ri - 1][1]
        if rnd.random() < 0.6:
            op = rnd.choice(["s_read_from", "s_read_exact_from", "s_write_to", "s_write_all_to"])
            a = {"addr": addr, "count": count, "script": rnd_script(rnd)}
        else:
            op = rnd.choice(["rs_read_from", "rs_read_exact_from", "rs_write_to", "rs_write_all_to"])
            a = {"ri": ri, "addr": rnd.choice([0, 1, rn - 1, rn, rn + 1, rn // 2]), "count": rnd.choice([0, 1, 2, rn - 1, rn, rn + 1, 7]),
                 "script": rnd_script(rnd)}
        prog.append({"op": op, "a": a})
    return prog


def run_c14(ctx):
    r = tlc_must_pass(TLA, os.path.join(SPEC, "MC_GuestMem.c14.cfg"), "mc_guest_c14", workers=8, timeout=3000)
    ctx.add_mc(r, "MC_GuestMem.c14.cfg")
    ctx.cov["exhaustive"] = True
    cfgs = ["Gen_GuestMem.c14q.cfg"] if ctx.tier == "quick" else ["Gen_GuestMem.c14q.cfg", "Gen_GuestMem.c14t.cfg"]
    for cfg in cfgs:
        r, inits, edges = gen_run(TLA, os.path.join(SPEC, cfg), "gen_guest_c14", workers=8, timeout=3000)
        ctx.add_mc(r, cfg)
        edges = [e for e in edges if e[0]["act"]["op"].startswith(("s_", "rs_"))]
        hists, covered = edges_to_histories(inits, edges, chunk=400)
        prog = [{"op": a["op"], "a": a["a"]} for h in hists for a in h]
        events = adjust_shrunk(run_harness("guest", prog, os.path.join(WORK, "gen_guest_c14.ev.ndjson"), ctx=ctx))
        judge_chunks(ctx, "gent_guest_c14", events, 120000)
        ctx.cov["gen_tests_replayed"] += covered
        ctx.cov["traces_validated_against_impl"] += len(hists)
        ctx.cov.setdefault("gen_edges", 0)
        ctx.cov["gen_edges"] += len(edges)
        ctx.sample({"kind": "spec-generated scripted-stream tests from one state", "config": cfg,
                    "steps": [x for x in hists[len(hists) // 2] if x["op"] != "init"][:5]})
        log("[gen] %s: %d scripted edges -> %d histories, %d events" % (cfg, len(edges), len(hists), len(events)))
    nhist, nops = (300, 40) if ctx.tier == "quick" else (5000, 60)
    prog = []
    for _ in range(nhist):
        prog += rnd_history_c14(ctx.rnd, nops)
    events = adjust_shrunk(run_harness("guest", prog, os.path.join(WORK, "tr_guest_c14.ev.ndjson"), ctx=ctx))
    judge_chunks(ctx, "tr_guest_c14", events)
    ctx.cov["traces_validated_against_impl"] += nhist
    ctx.sample({"kind": "recorded scripted-stream history validated by Trace_GuestMem", "events":
                [{"op": e["op"], "a": e["a"], "r": e["r"]} for e in events[1:5]]})
    ctx.assumptions += [
        "scripts are enumerated exhaustively up to length 2 (quick) / 4 (thorough) over {full, short 1, short 2, zero, eintr, err}; "
        "longer scripts and other short counts are sampled",
        "slice-level transfers are exercised through the region level (GuestRegionMmap and the custom backend both delegate to VolatileSlice)",
    ]
