"""System pipeline: the composition of regions, maps, replaceable memories, snapshots, bytes and dirty bitmaps
(System.tla).  Behaviours are drawn from the specification by TLC's simulator, replayed on the real objects by the
`sys` executor, and the recorded trace is judged by Trace_System with the conjuncts of the property under check."""
import os
from vlib import *

TLA = os.path.join(SPEC, "MC_System.tla")
GEN_TLA = os.path.join(SPEC, "Gen_System.tla")
TRACE_TLA = os.path.join(SPEC, "Trace_System.tla")
CANDS = [[0, 4], [4, 4], [2, 4], [10, 3], [0, 4]]      # = CandsMC
PAGE = 2
TAGS = {"C03": "data", "C05": "dirty_sound", "C16": "dirty_precise", "C10": "maps", "C11": "snapshot", "C12": "mapped"}
NEG = [("MC_System.neg_nomark.cfg", "DirtySound"), ("MC_System.neg_alias.cfg", "Isolation"), ("MC_System.neg_inplace.cfg", "Immutable")]


def mc(ctx):
    cfgs = ["MC_System.cfg", "MC_System.warm.cfg", "MC_System.twin.cfg"] if ctx.tier == "quick" else ["MC_System.thorough.cfg", "MC_System.warm_thorough.cfg", "MC_System.twin.cfg"]
    for c in cfgs:
        r = tlc_must_pass(TLA, os.path.join(SPEC, c), "mc_system_" + ctx.pid, workers=8, timeout=3000)
        ctx.add_mc(r, c)
    for c, prop in NEG:
        r = tlc(TLA, os.path.join(SPEC, c), "mc_system_neg_" + ctx.pid, workers=4, timeout=900)
        if r.ok or not r.error or prop not in open(r.out_path, errors="replace").read():
            raise ToolError("negative configuration %s was not refuted (%s expected to fail)" % (c, prop))
        ctx.cov.setdefault("negative_configs_refuted", 0)
        ctx.cov["negative_configs_refuted"] += 1


def data_of(v, n):
    return [(v + i) % 251 for i in range(n)]


def histories(ctx):
    """Behaviours of the specification, as programs."""
    num = 400 if ctx.tier == "quick" else 6000
    keep = 700 if ctx.tier == "quick" else 12000
    hists = []
    for cfg in ("Gen_System.cfg", "Gen_System.warm.cfg", "Gen_System.twin.cfg"):
        r = tlc(GEN_TLA, os.path.join(SPEC, cfg), "gen_system_" + ctx.pid, workers=1, timeout=3000,
                extra=("-simulate", "num=%d" % num, "-depth", "70", "-seed", str(ctx.seed)))
        if not r.ok:
            raise ToolError("TLC simulation failed on %s (rc=%s)" % (cfg, r.rc))
        got = [h for (h,) in parse_tagged(r.out_path, "HIST")]
        # the simulator evaluates the printing invariant on every candidate successor: de-duplicate, then sample
        uniq = list({json.dumps(h, sort_keys=True): h for h in got}.values())
        ctx.rnd.shuffle(uniq)
        hists += uniq[:keep // 3]
        ctx.cov.setdefault("spec_behaviours_generated", 0)
        ctx.cov["spec_behaviours_generated"] += len(uniq)
        ctx.add_mc(r, "%s (simulate num=%d depth=70 seed=%d: %d distinct behaviours)" % (cfg, num, ctx.seed, len(uniq)))
    return hists


def program(hists):
    prog = []
    for h in hists:
        prog.append({"op": "init", "a": {"cands": CANDS, "page": PAGE}})
        for a in h:
            args = dict(a["a"])
            if a["op"] == "write":
                args["data"] = data_of(args["v"], args["len"])
            prog.append({"op": a["op"], "a": args})
    return prog


def judge(ctx, name, events):
    cfg = os.path.join(SPEC, "Trace_System.%s.cfg" % ctx.pid)
    mism = validate_trace(ctx, TRACE_TLA, cfg, name, events, encode=False, timeout=3000)
    starts = [i for i, e in enumerate(events) if e["op"] == "init"]
    done = set()
    import bisect
    for m in sorted(mism, key=lambda m: m[0]):
        i, tag, exp = m[0], m[1], m[2]
        j = starts[bisect.bisect_right(starts, i - 1) - 1]
        if j in done:
            continue            # the specification state is not re-synchronised: only the first mismatch of a history counts
        done.add(j)
        ev = events[i - 1]
        if tag == "shape" and ev["r"].get("k") in ("panic", "signal"):
            tag = "crash"
        ctx.mismatch({"module": "System", "tag": tag, "op": ev["op"], "a": {k: v for k, v in ev["a"].items() if k != "data"}, "r": ev["r"]},
                     {"module": "sys", "program": [{"op": e["op"], "a": e["a"]} for e in events[j:i]],
                      "expected": exp, "observed": {"r": ev["r"], "s": ev.get("s")}})


NEG_TRACE = [("nomark", "dirty_precise"), ("alias", "data"), ("inplace", "snapshot")]


def binding(ctx, events):
    """Non-vacuity of the trace judgement: the recorded execution of the real code must be REJECTED by each wrong variant
    of the specification (a write path that forgets the bitmap, writes that alias equal guest ranges, a replace that mutates
    the shared map), with the conjunct that variant breaks."""
    for v, tag in NEG_TRACE:
        mism = validate_trace(ctx, TRACE_TLA, os.path.join(SPEC, "Trace_System.neg_%s.cfg" % v), "tr_system_neg_%s_%s" % (v, ctx.pid),
                              events, encode=False, timeout=3000)
        ctx.cov["events_validated"] -= len(events)
        if not any(m[1] == tag for m in mism):
            raise ToolError("the recorded System trace is accepted by the wrong variant %r (no %s mismatch): the drive does not "
                            "exercise what distinguishes it" % (v, tag))
        ctx.cov.setdefault("wrong_variants_rejecting_the_real_trace", 0)
        ctx.cov["wrong_variants_rejecting_the_real_trace"] += 1


def run(ctx):
    mc(ctx)
    hists = histories(ctx)
    prog = program(hists)
    events = run_harness("sys", prog, os.path.join(WORK, "tr_system_%s.ev.ndjson" % ctx.pid), ctx=ctx)
    chunk, k = [], 0
    for h in split_events(events):
        chunk += h
        if len(chunk) > 6000:
            judge(ctx, "tr_system_%s_%d" % (ctx.pid, k), chunk)
            if k == 0 and ctx.violations == 0:
                binding(ctx, chunk)
            chunk, k = [], k + 1
    if chunk:
        judge(ctx, "tr_system_%s_%d" % (ctx.pid, k), chunk)
    ctx.cov["traces_validated_against_impl"] += len(hists)
    ops = {}
    for e in events:
        ops[e["op"]] = ops.get(e["op"], 0) + 1
    ctx.cov["system_ops"] = ops
    if hists:
        ctx.sample({"kind": "behaviour of System.tla replayed on the real objects and validated by Trace_System",
                    "events": [{"op": e["op"], "a": e["a"], "r": e["r"]} for e in events[:10]]})
