"""Regions pipeline (C10)."""
import os
from vlib import *

TLA = os.path.join(SPEC, "MC_Regions.tla")
TRACE_TLA = os.path.join(SPEC, "Trace_Regions.tla")


def judge(ctx, name, events):
    mism = validate_trace(ctx, TRACE_TLA, os.path.join(SPEC, "Trace_Regions.C10.cfg"), name, events, timeout=3000)
    for m in mism:
        i, tag, exp = m[0], m[1], m[2]
        ev = events[i - 1]
        j = i - 1
        while events[j]["op"] != "init":
            j -= 1
        ctx.mismatch({"module": "Regions", "tag": tag, "op": ev["op"], "a": ev["a"], "r": ev["r"]},
                     {"module": "regions", "program": [{"op": e["op"], "a": e["a"]} for e in events[j:i]],
                      "expected": exp, "observed": ev})


def judge_chunks(ctx, name, events, size=80000):
    chunk, k = [], 0
    for h in split_events(events):
        chunk += h
        if len(chunk) > size:
            judge(ctx, "%s_%d" % (name, k), chunk)
            chunk, k = [], k + 1
    if chunk:
        judge(ctx, "%s_%d" % (name, k), chunk)


def rnd_history(rnd):
    """Pools of 4-6 regions, maps of up to 6 regions, removals of first / middle / last regions, re-insertions.
    The driver assumes its constructions succeed; when one does not, later references are answered with `skipref`
    by the executor and the history is cut there."""
    base = rnd.choice([0, 0, 0x1000, (1 << 63) - 0x40, U64 - 0x200])
    k = rnd.choice([4, 5, 6])
    prog = [{"op": "init", "a": {}}]
    regs = []
    at = base
    for i in range(k):
        n = rnd.choice([1, 2, 3, 8, 16])
        regs.append((at, n))
        prog.append({"op": "new_region", "a": {"s": at, "n": n}})
        at += n + rnd.choice([0, 0, 1, 5])
    ids = list(range(1, k + 1))
    prog.append({"op": "from_regions", "a": {"ids": ids}})
    maps = [list(ids)]          # what each map should contain if everything succeeded
    for _ in range(rnd.randint(3, 8)):
        m = rnd.randint(1, len(maps))
        cur = maps[m - 1]
        c = rnd.random()
        if c < 0.5 and cur:
            r = rnd.choice([cur[0], cur[0], cur[len(cur) // 2], cur[-1], rnd.choice(cur)])
            s0, n0 = regs[r - 1]
            wrong = rnd.random() < 0.15
            prog.append({"op": "remove_region", "a": {"m": m, "base": s0 + (1 if wrong and n0 > 1 else 0), "size": n0 + (1 if wrong and n0 == 1 else 0)}})
            if not wrong:
                maps.append([x for x in cur if x != r])
        elif c < 0.8:
            missing = [x for x in ids if x not in cur]
            r = rnd.choice(missing) if missing and rnd.random() < 0.8 else rnd.choice(ids)
            prog.append({"op": "insert_region", "a": {"m": m, "r": r}})
            if r not in cur:
                maps.append(sorted(cur + [r]))
        elif cur:
            prog.append({"op": "write_tag", "a": {"m": m, "i": rnd.randint(1, len(cur)), "val": rnd.randint(100, 250)}})
    return prog


def run(ctx):
    r = tlc_must_pass(TLA, os.path.join(SPEC, "MC_Regions.quick.cfg"), "mc_regions", workers=8, timeout=900)
    ctx.add_mc(r, "MC_Regions.quick.cfg")
    if ctx.tier == "thorough":
        r = tlc_must_pass(TLA, os.path.join(SPEC, "MC_Regions.thorough.cfg"), "mc_regions", workers=8, timeout=3000)
        ctx.add_mc(r, "MC_Regions.thorough.cfg")
    ctx.cov["exhaustive"] = True
    cfgs = ["Gen_Regions.quick.cfg"] if ctx.tier == "quick" else ["Gen_Regions.quick.cfg", "Gen_Regions.thorough.cfg"]
    for cfg in cfgs:
        r, inits, edges = gen_run(TLA, os.path.join(SPEC, cfg), "gen_regions", workers=8, timeout=1800)
        ctx.add_mc(r, cfg)
        tests = edges_to_tests(inits, edges, None if ctx.tier == "thorough" else 40000, ctx.seed)
        prog = []
        for t in tests:
            prog += [{"op": s["op"], "a": s["a"]} for s in t["steps"]]
        events = run_harness("regions", prog, os.path.join(WORK, "gen_regions.ev.ndjson"), ctx=ctx)
        judge_chunks(ctx, "gent_regions", events)
        ctx.cov["gen_tests_replayed"] += len(tests)
        ctx.cov["traces_validated_against_impl"] += len(tests)
        ctx.cov.setdefault("gen_edges", 0)
        ctx.cov["gen_edges"] += len(edges)
        ctx.sample({"kind": "spec-generated history (shortest path + transition)", "config": cfg, "steps": tests[len(tests) // 2]["steps"]})
        log("[gen] %s: %d edges -> %d tests, %d events" % (cfg, len(edges), len(tests), len(events)))
    # hi universe: regions adjacent to the top of the address space, driven by TLC simulation traces mapped to
    # concrete addresses (the specification chooses operations that refer to existing maps / regions)
    hi(ctx)
    nh = 400 if ctx.tier == "quick" else 8000
    prog = []
    for _ in range(nh):
        prog += rnd_history(ctx.rnd)
    events = run_harness("regions", prog, os.path.join(WORK, "rnd_regions.ev.ndjson"), ctx=ctx)
    keep = []
    for h in split_events(events):
        cut = next((i for i, e in enumerate(h) if e["r"].get("k") == "skipref"), len(h))
        keep += h[:cut]
    judge_chunks(ctx, "rnd_regions", keep)
    ctx.cov["traces_validated_against_impl"] += nh
    ctx.assumptions += [
        "histories are exhaustive up to 5 operations over 3 regions (quick) in a small start/length universe",
        "regions near 2^63 and 2^64 are covered by band-shifted replays of the same histories",
    ]


def hi(ctx):
    """Replay a sample of the generated histories shifted to the middle and the top of the address space:
    starts are mapped s -> base + s so that the largest region ends at 2^64 - 1 (allowed) or would end at
    2^64 (refused at creation); the trace specification runs with the band-encoded WORD."""
    out = os.path.join(WORK, "gen_regions.out")
    inits = parse_tagged(out, "INIT")
    edges = parse_tagged(out, "EDGE")
    tests = edges_to_tests(inits, edges, 6000 if ctx.tier == "quick" else 60000, ctx.seed + 1)
    prog = []
    for n, t in enumerate(tests):
        base = [(1 << 63) - 2, U64 - 8, U64 - 6, U64 - 5][n % 4]
        for s in t["steps"]:
            a = dict(s["a"])
            if s["op"] == "new_region":
                a["s"] = min(base + a["s"], U64 - 1)
            if s["op"] == "remove_region":
                a["base"] = min(base + a["base"], U64 - 1)
            prog.append({"op": s["op"], "a": a})
    # region ids shift when a creation is refused: let the harness tell us, and drop histories whose later
    # steps refer to regions that were never created
    events = run_harness("regions", prog, os.path.join(WORK, "hi_regions.ev.ndjson"), ctx=ctx)
    keep = []
    for h in split_events(events):
        if all(e["r"].get("k") != "skipref" for e in h):
            keep += h
        else:
            cut = next(i for i, e in enumerate(h) if e["r"].get("k") == "skipref")
            keep += h[:cut]
    judge_chunks(ctx, "hi_regions", keep)
    ctx.cov["traces_validated_against_impl"] += len(tests)
    ctx.sample({"kind": "history shifted to the top of the address space", "events":
                [{"op": e["op"], "a": e["a"], "r": e["r"]} for e in keep[:6]]})
