"""Property table: which pipeline decides which property."""
import json
import os
import vlib
import m_bitmap
import m_volatile
import m_guest
import m_addr
import m_endian
import m_streams
import m_regions
import m_conc
import m_copyw
import m_amap
import m_own
import m_xen
import m_system
import m_mord
import m_unmap


def c09(ctx):
    m_bitmap.run(ctx)


def both(ctx):
    m_volatile.run(ctx)
    m_guest.run(ctx)


def c17(ctx):
    m_volatile.run(ctx)
    m_xen.xgrant(ctx)
    m_unmap.xwindows(ctx)


def c18(ctx):
    m_volatile.run(ctx)
    m_guest.run(ctx)
    m_xen.xgrant(ctx, zero=True)


def c07(ctx):
    m_volatile.run(ctx)
    m_guest.run(ctx)
    m_bitmap.traces(ctx)
    m_xen.xgrant(ctx, zero=True)
    # the same drivers against a release build (no overflow checks, no debug assertions): still no panic / fault / hang
    m_volatile.traces(ctx, release=True)
    m_guest.traces(ctx, release=True)
    ctx.cov["release_profile_runs"] = 2


def with_system(f):
    def g(ctx):
        f(ctx)
        m_system.run(ctx)
    return g


def c01(ctx):
    m_volatile.run(ctx)
    # accessors handed out at region and guest-memory level (get_slice / get_host_address of regions based at non-zero
    # guest addresses, offsets around the region's length): boundary-biased histories judged by GuestMem's query rules
    m_guest.traces(ctx, zst=False)


def c05(ctx):
    both(ctx)
    m_system.run(ctx)
    m_mord.run(ctx)


def c12(ctx):
    m_own.run(ctx)
    m_system.run(ctx)
    m_unmap.run(ctx)


PROPS = {
    "C02": m_guest.run,
    "C03": with_system(m_guest.run),
    "C01": c01,
    "C04": m_volatile.run,
    "C05": c05,
    "C15": m_xen.xctor,
    "C16": with_system(both),
    "C17": c17,
    "C18": c18,
    "C07": c07,
    "C06": m_copyw.run,
    "C08": m_conc.run,
    "C09": c09,
    "C10": with_system(m_regions.run),
    "C11": with_system(m_amap.run),
    "C12": c12,
    "C13": m_streams.run,
    "C14": m_guest.run_c14,
    "C19": m_addr.run,
    "C20": m_endian.run,
}

REPLAY_MODULES = {"bitmap", "volatile", "guest", "sys"}


def replay(pid, path):
    """Re-execute the program of a replay file against the current tree and print what is observed
    next to what the specification expected."""
    with open(path) as f:
        rp = json.load(f)
    body = rp["replay"]
    module = body["module"]
    events = vlib.run_harness(module, body["program"], os.path.join(vlib.WORK, "replay.out.ndjson"),
                              pkg=body.get("pkg", "vmh"))
    print("program:")
    for e in events:
        print("  ", json.dumps({"op": e["op"], "a": e["a"], "r": e["r"]}))
    print("observed final state:", json.dumps(events[-1]["s"]))
    print("specification expected:", json.dumps(body.get("expected_state", body.get("expected"))))
    print("recorded signature:", json.dumps(rp["signature"]))
    return 0
