"""Bitmap module pipeline (C09): MC design check, spec->impl transition tests, impl->spec traces."""
import os
from vlib import *

TLA = os.path.join(SPEC, "MC_Bitmap.tla")
TRACE_TLA = os.path.join(SPEC, "Trace_Bitmap.tla")

TRAIT_OPS = {"mark_dirty", "dirty_at", "slice_mark", "slice_dirty_at"}


def mc(ctx):
    cfgs = ["MC_Bitmap.quick.cfg"] if ctx.tier == "quick" else ["MC_Bitmap.quick.cfg", "MC_Bitmap.thorough.cfg"]
    for c in cfgs:
        r = tlc_must_pass(TLA, os.path.join(SPEC, c), "mc_bitmap_" + ctx.pid, workers=8,
                          timeout=1800 if ctx.tier == "thorough" else 600)
        ctx.add_mc(r, c)
    ctx.cov["exhaustive"] = True


def cmp_handle(b, o):
    """specification handle b vs logged projection o -> None or reason."""
    if bool(o.get("live")) != bool(b["live"]):
        return "liveness of handle differs"
    if not b["live"]:
        return None
    if bool(o.get("tr", True)) != bool(b.get("tr", True)):
        return "tracked/untracked flavour differs"
    np_ = -(-b["bs"] // b["ps"])
    if o["len"] != np_:
        return "len() = %d, specification %d" % (o["len"], np_)
    if o["bsz"] != b["bs"]:
        return "byte_size() = %d, specification %d" % (o["bsz"], b["bs"])
    if sorted(o["bits"]) != sorted(b["dirty"]):
        return "set bits %s, specification %s" % (sorted(o["bits"]), sorted(b["dirty"]))
    d = set(b["dirty"])
    for a in o["aset"]:
        if a // b["ps"] not in d:
            return "is_addr_set(%d) true, page clean in specification" % a
    for a in o["aclr"]:
        if a // b["ps"] in d:
            return "is_addr_set(%d) false, page dirty in specification" % a
    return None


def cmp_res(exp, obs):
    if exp.get("k") != obs.get("k"):
        return "result %s, specification %s" % (obs, exp)
    if exp["k"] == "pages":
        if sorted(exp["pages"]) != sorted(obs["pages"]) or exp["words"] != obs["words"]:
            return "get_and_reset %s, specification %s" % (obs, exp)
    elif exp != obs:
        return "result %s, specification %s" % (obs, exp)
    return None


def gen(ctx):
    """Every transition of the small-scope state graph becomes one test on the real bitmap."""
    if ctx.tier == "quick":
        cfgs = [("Gen_Bitmap.single.cfg", 40000), ("Gen_Bitmap.clone.cfg", 20000)]
    else:
        cfgs = [("Gen_Bitmap.single.cfg", None), ("Gen_Bitmap.clone.cfg", 300000)]
    for cfg, limit in cfgs:
        r, inits, edges = gen_run(TLA, os.path.join(SPEC, cfg), "gen_bitmap_" + ctx.pid, workers=8, timeout=1800)
        ctx.add_mc(r, cfg)
        if len(edges) != r.generated - len(inits) and len(edges) < r.generated - len(inits) - 5:
            pass  # constraint-cut transitions are not emitted; counts need not match exactly
        tests = edges_to_tests(inits, edges, limit, ctx.seed)
        ctx.cov.setdefault("gen_edges", 0)
        ctx.cov["gen_edges"] += len(edges)
        program = []
        index = []      # (test, flavour)
        for t in tests:
            lastop = t["steps"][-1]["op"]
            flavours = ["atomic", "opt", "arc"] if lastop in TRAIT_OPS else ["atomic"]
            if not t["steps"][0]["a"].get("tr", True):
                flavours = ["optnone", "unit"]          # the untracked flavours: `None` of Option<B> and `()`
            if any(s["op"] == "enlarge" for s in t["steps"]):
                flavours = [f for f in flavours if f != "arc"] or ["atomic"]
            for fl in flavours:
                for i, s in enumerate(t["steps"]):
                    a = dict(s["a"])
                    if i == 0:
                        a["fl"] = fl
                    program.append({"op": s["op"], "a": a})
                index.append((t, fl))
        events = run_harness("bitmap", program, os.path.join(WORK, "gen_bitmap_%s.out.ndjson" % ctx.pid), ctx=ctx)
        hist = split_events(events)
        if len(hist) != len(index):
            raise ToolError("harness returned %d histories for %d tests" % (len(hist), len(index)))
        for (t, fl), h in zip(index, hist):
            last = h[-1]
            act = t["steps"][-1]
            why = cmp_res(act["r"], last["r"])
            if why is None:
                for b, o in zip(t["exp"][-1], last["s"]["bm"]):
                    why = cmp_handle(b, o)
                    if why:
                        break
            ctx.cov["gen_tests_replayed"] += 1
            ctx.cov["traces_validated_against_impl"] += 1
            if why:
                ctx.mismatch({"module": "Bitmap", "kind": "gen-test", "flavour": fl, "op": act["op"], "a": act["a"],
                              "r": last["r"], "why": why},
                             {"module": "bitmap", "program": [{"op": s["op"], "a": dict(s["a"], **({"fl": fl} if i == 0 else {}))}
                                                              for i, s in enumerate(t["steps"])],
                              "expected_state": t["exp"][-1], "expected_result": act["r"], "observed": last})
        if tests:
            t = tests[len(tests) // 2]
            ctx.sample({"kind": "spec-generated transition test", "config": cfg, "steps": t["steps"], "expected_state": t["exp"][-1]})
        log("[gen] %s: %d edges, %d tests (%d runs on flavours)" % (cfg, len(edges), len(tests), len(index)))


def rand_history(rnd, nops):
    ps = rnd.choice([1, 1, 2, 3, 7, 64, 128, 4096, 4096, 4096])
    np_ = rnd.choice([0, 1, 2, 3, 5, 63, 64, 65, 127, 128, 129, rnd.randint(0, 140)])
    bs = max(0, np_ * ps - rnd.choice([0, 0, 1, ps - 1]))
    fl = rnd.choice(["atomic", "atomic", "atomic", "opt", "opt", "arc", "arc", "optnone", "unit"])
    tracked = fl not in ("optnone", "unit")
    if not tracked:
        bs = 0
    # NewBitmap::with_len(n) is new(n, host page size); Default is new(0, 4 KiB): the specification is told (bs, ps) only
    via = "new"
    if ps == 4096 and fl in ("atomic", "unit"):
        via = rnd.choice(["new", "with_len", "with_len", "default"])
        if via == "default" and tracked:
            bs = 0
    elif fl == "optnone":
        via = rnd.choice(["new", "default"])
    prog = [{"op": "init", "a": {"bs": bs, "ps": ps, "fl": fl, "tr": tracked, "via": via}}]
    live = [1]
    cur_bs = {1: bs}

    def addr(h):
        b = cur_bs[h]
        n = -(-b // ps)
        c = [0, 1, ps - 1, ps, ps + 1, max(b - 1, 0), b, b + 1, n * ps, max(n * ps - 1, 0), n * ps + 1,
             64 * ps, max(64 * ps - 1, 0), 63 * ps, 65 * ps, U64 - 1, U64 - 2, U64 - ps, (1 << 63), (1 << 63) - 1,
             rnd.randint(0, b + 2 * ps), rnd.randint(0, b + 2 * ps), rnd.randint(0, b + 2 * ps)]
        return rnd.choice(c)

    def length(h):
        b = cur_bs[h]
        c = [0, 1, 2, ps - 1, ps, ps + 1, 2 * ps, b, b + 1, 64 * ps, U64 - 1, U64 - 2, (1 << 63),
             rnd.randint(0, b + ps), rnd.randint(0, 3 * ps), rnd.randint(0, b + ps)]
        return rnd.choice(c)

    def idx(h):
        n = -(-cur_bs[h] // ps)
        return rnd.choice([0, 1, 62, 63, 64, 65, 127, 128, max(n - 1, 0), n, n + 1, n + 63, n + 64, U64 - 1, (1 << 63),
                           rnd.randint(0, n + 2), rnd.randint(0, n + 2)])

    for _ in range(nops):
        h = rnd.choice(live)
        k = rnd.random()
        if not tracked:                 # only the trait (and clone) exists on `()` / None
            k = rnd.choice([0.54, 0.75, 0.8, 0.9, 0.9, 0.95])
        if k < 0.22:
            prog.append({"op": "set_range", "a": {"h": h, "s": addr(h), "l": length(h)}})
        elif k < 0.32:
            prog.append({"op": "reset_range", "a": {"h": h, "s": addr(h), "l": length(h)}})
        elif k < 0.40:
            prog.append({"op": "set_bit", "a": {"h": h, "i": idx(h)}})
        elif k < 0.45:
            prog.append({"op": "reset_bit", "a": {"h": h, "i": idx(h)}})
        elif k < 0.50:
            prog.append({"op": "get_and_reset", "a": {"h": h}})
        elif k < 0.52:
            prog.append({"op": "reset", "a": {"h": h}})
        elif k < 0.56:
            prog.append({"op": "clone", "a": {"h": 1}})
            if 2 not in live:
                live.append(2)
            cur_bs[2] = cur_bs[1]
        elif k < 0.60 and fl != "arc":
            add = rnd.choice([0, 1, ps - 1, ps, ps + 1, 63 * ps, 64 * ps])
            if cur_bs[h] + add <= 150 * ps:
                prog.append({"op": "enlarge", "a": {"h": h, "add": add}})
                cur_bs[h] += add
        elif k < 0.66:
            prog.append({"op": "is_bit_set", "a": {"h": h, "i": idx(h)}})
        elif k < 0.72:
            prog.append({"op": "is_addr_set", "a": {"h": h, "addr": addr(h)}})
        elif k < 0.78:
            prog.append({"op": "mark_dirty", "a": {"h": h, "s": addr(h), "l": length(h)}})
        elif k < 0.82:
            prog.append({"op": "dirty_at", "a": {"h": h, "addr": addr(h)}})
        elif k < 0.93:
            prog.append({"op": "slice_mark", "a": {"h": h, "b1": addr(h), "b2": addr(h), "off": addr(h), "l": length(h)}})
        else:
            prog.append({"op": "slice_dirty_at", "a": {"h": h, "b1": addr(h), "b2": addr(h), "off": addr(h)}})
    return prog


def traces(ctx):
    """Boundary-biased random histories on the real bitmap, judged by TLC (Trace_Bitmap)."""
    nhist, nops = (60, 40) if ctx.tier == "quick" else (1200, 60)
    prog = []
    for _ in range(nhist):
        prog += rand_history(ctx.rnd, nops)
    events = run_harness("bitmap", prog, os.path.join(WORK, "tr_bitmap_%s.out.ndjson" % ctx.pid), ctx=ctx)
    mism = validate_trace(ctx, TRACE_TLA, os.path.join(SPEC, "Trace_Bitmap.%s.cfg" % ctx.pid), "tr_bitmap_" + ctx.pid,
                          events, timeout=3000)
    ctx.cov["traces_validated_against_impl"] += nhist
    hist_start = 0
    for (i, tag, exp) in mism:
        ev = events[i - 1]
        # find the history this event belongs to, for the replay file
        j = i - 1
        while events[j]["op"] != "init":
            j -= 1
        ctx.mismatch({"module": "Bitmap", "kind": "trace", "tag": tag, "op": ev["op"], "a": ev["a"], "r": ev["r"],
                      "why": "logged %s differs from specification" % tag, "expected": exp},
                     {"module": "bitmap", "program": [{"op": e["op"], "a": e["a"]} for e in events[j:i]],
                      "expected": exp, "observed": ev})
    ctx.sample({"kind": "recorded history validated by Trace_Bitmap", "events": events[:6]})


def run(ctx):
    mc(ctx)
    gen(ctx)
    traces(ctx)
    ctx.assumptions += [
        "TLC explores the specification exhaustively only for the small constants of the MC/Gen configurations",
        "64-bit extremes are covered by recorded traces in band encoding (0, 2^63, 2^64 +- 2^20), not by proof",
        "AtomicBitmap::enlarge byte-size overflow is a management-call precondition, not explored",
    ]
