"""Unmap-once (C12, system-call level): the executors are run under strace; every mmap / munmap the process issues is
attributed to the operation that issued it (marker system calls) and TLC checks that no address that held a file-backed
mapping is unmapped while nothing is mapped there (a second munmap of the same mapping).  /proc/self/maps cannot see
that: after the first munmap the range is gone either way."""
import os
import re
import subprocess
from vlib import *

TRACE_TLA = os.path.join(SPEC, "Trace_Unmap.tla")
_RE = re.compile(r'^(\d+)\s+(mmap|munmap|mremap|write)\((.*)\)\s+=\s+(\S+)')


def strace_run(ctx, module, program, name, pkg="vmh", timeout=1800):
    """Runs the executor under strace; returns (events, per-operation syscall lists).  If the code under test takes the
    process down, that is a violation (recorded here) and the events up to that point are still judged."""
    exe = build_harness(pkg, False)
    prog_path = os.path.join(WORK, name + ".prog")
    out_path = os.path.join(WORK, name + ".ev.ndjson")
    st_path = os.path.join(WORK, name + ".strace")
    with open(prog_path, "w") as f:
        for line in program:
            f.write(json.dumps(line, separators=(",", ":")) + "\n")
    nlines = len(program)
    env = dict(os.environ, VMH_MARKERS="1")
    p = subprocess.run(["strace", "-f", "-e", "trace=mmap,munmap,mremap,write", "-o", st_path, exe, module, prog_path, out_path],
                       stdout=subprocess.PIPE, stderr=subprocess.PIPE, text=True, timeout=timeout, env=env)
    events = []
    if os.path.exists(out_path):
        for l in open(out_path):
            try:
                events.append(json.loads(l))
            except ValueError:
                break
    if p.returncode != 0:
        if p.returncode in (2,) or "harness:" in p.stderr or len(events) >= len(program):
            raise ToolError("executor under strace failed rc=%d: %s" % (p.returncode, p.stderr[-1500:]))
        bad = program[len(events)]
        sig = -p.returncode if p.returncode < 0 else p.returncode
        log("[strace] the process died (%d) in %s %s" % (sig, bad.get("op"), json.dumps(bad.get("a"))[:200]))
        ctx.mismatch({"module": module, "tag": "crash", "op": bad.get("op"), "a": bad.get("a"),
                      "r": {"k": "signal", "sig": sig, "msg": "the process running the library died (%d)" % sig}},
                     {"module": module, "pkg": pkg, "program": program[max(0, len(events) - 20):len(events) + 1],
                      "expected": "the call returns", "observed": "process died (%d)" % sig})
        program = program[:len(events)]
    if len(events) != len(program):
        raise ToolError("executor under strace returned %d events for %d lines" % (len(events), len(program)))
    ids = {}
    per_op = [[] for _ in range(nlines + 2)]
    cur = 0
    main_pid = None
    for line in open(st_path, errors="replace"):
        m = _RE.match(line)
        if not m:
            continue
        pid, call, args, ret = m.groups()
        if main_pid is None:
            main_pid = pid
        if pid != main_pid:
            continue                    # helper threads of the executor (watchdog) do not touch the mappings under test
        if call == "write":
            mm = re.match(r'-1, "OP (\d+)"', args)
            if mm:
                cur = int(mm.group(1))
            continue
        if call == "mremap":
            if not ret.startswith("0x"):
                continue
            old = int(args.split(",")[0], 16)
            per_op[cur].append(["munmap", ids.setdefault(old, len(ids) + 1), 0])
            per_op[cur].append(["mmap", ids.setdefault(int(ret, 16), len(ids) + 1), 0])
            continue
        if call == "mmap":
            if not ret.startswith("0x"):
                continue
            a = [x.strip() for x in args.split(",")]
            fd = int(a[4]) if re.match(r'-?\d+$', a[4]) else -1
            addr = int(ret, 16)
            per_op[cur].append(["mmap", ids.setdefault(addr, len(ids) + 1), 1 if fd >= 0 else 0])
        else:
            if ret != "0":
                continue
            addr = int(args.split(",")[0], 16)
            per_op[cur].append(["munmap", ids.setdefault(addr, len(ids) + 1), 0])
    return events, per_op[:len(events) + 1]


def judge(ctx, name, events, per_op):
    tr = [{"op": e["op"], "n": i + 1, "sys": per_op[i + 1]} for i, e in enumerate(events)]
    tr.insert(0, {"op": "startup", "n": 0, "sys": per_op[0]})
    mism = validate_trace(ctx, TRACE_TLA, os.path.join(SPEC, "Trace_Unmap.cfg"), name, tr, encode=False, timeout=1800)
    for m in mism:
        i = m[0] - 1          # index into tr; tr[i] belongs to events[i - 1]
        ev = events[i - 1] if i >= 1 else {"op": "startup", "a": {}, "r": {}}
        j = i - 1
        while j > 0 and events[j - 1]["op"] != "init":
            j -= 1
        ctx.mismatch({"module": "Unmap", "tag": m[1], "op": ev["op"], "a": ev.get("a"), "r": {"k": m[1]}},
                     {"module": name, "program": [{"op": e["op"], "a": e["a"]} for e in events[max(j - 1, 0):i]],
                      "expected": "every mapping is unmapped once", "observed": m[2], "syscalls": tr[i]["sys"]})
    return mism



def xwindows(ctx):
    """Xen build: accesses through an on-demand grant region under strace - every temporary window is mapped and unmapped
    exactly once (the device log pairs map and unmap REQUESTS; a second munmap of the window itself is only visible here)."""
    import m_xen
    P = m_xen.P
    prog = []
    for h in range(2 if ctx.tier == "quick" else 12):
        base, size = 2 * P, 4 * P
        prog.append({"op": "init", "a": {"kind": "ondemand", "pages": 8, "base": base, "size": size}})
        n = 0
        while n < (40 if ctx.tier == "quick" else 120):
            op, a = m_xen.rnd_op(ctx.rnd, base, size, False)
            if op in m_xen.GUARDED:         # (the others run in forked children of the executor)
                prog.append({"op": op, "a": a})
                n += 1
        prog.append({"op": "drop", "a": {}})
    events, per_op = strace_run(ctx, "xgrant", prog, "unmap_xgrant_" + ctx.pid, pkg="vmh-xen")
    judge(ctx, "unmap_xgrant_" + ctx.pid, events, per_op)
    windows = sum(1 for x in per_op for c in x if c[0] == "mmap" and c[2] == 1)
    if windows < 20:
        raise ToolError("the on-demand accesses under strace produced almost no temporary mappings (%d)" % windows)
    ctx.cov["on_demand_windows_under_strace"] = windows
    return sum(len(x) for x in per_op)


def run(ctx):
    import m_own
    # standard build: ownership histories (create / clone / drop in every order)
    nh = 60 if ctx.tier == "quick" else 600
    prog = []
    for _ in range(nh):
        prog += m_own.rnd_history(ctx.rnd, 30)
    events, per_op = strace_run(ctx, "own", prog, "unmap_own_" + ctx.pid)
    judge(ctx, "unmap_own_" + ctx.pid, events, per_op)
    n_sys = sum(len(x) for x in per_op)
    # Xen build: every accepted construction, dropped again (unix, foreign, grant, on-demand grant)
    prog = []
    for mflags in (0, 1, 2, 10):
        for size in (4096, 4097, 8192):
            for rep in range(2 if ctx.tier == "quick" else 10):
                prog.append({"op": "from_range", "a": {"mflags": mflags, "file": True, "size": size, "flen": 8192 + 4096, "foff": 0, "fixed": False,
                                                       "fail": "", "base": 0, "defaults": rep % 2 == 0, "badflags": False}})
    events, per_op = strace_run(ctx, "xctor", prog, "unmap_xctor_" + ctx.pid, pkg="vmh-xen")
    judge(ctx, "unmap_xctor_" + ctx.pid, events, per_op)
    bad = [e for e in events if e["r"].get("k") != "ok"]
    if bad and not ctx.violations:
        raise ToolError("a construction that should be accepted was refused under strace: %s" % json.dumps(bad[0])[:300])
    n_sys += sum(len(x) for x in per_op)
    n_sys += xwindows(ctx)
    ctx.cov["syscalls_attributed"] = n_sys
    ctx.cov["traces_validated_against_impl"] += nh + len(prog)
    ctx.assumptions += ["unmap-once is observed through strace (mmap / munmap of the executor's main thread, attributed to operations by "
                        "marker system calls); a mapping counts as the library's when it is file-backed"]
