"""Streams pipeline (C13): volatile stream adapters vs their std::io counterparts."""
import os
from vlib import *

TLA = os.path.join(SPEC, "MC_Streams.tla")
TRACE_TLA = os.path.join(SPEC, "Trace_Streams.tla")
KINDS = {"src": ["slice_src", "unix_src"], "sink": ["slice_sink"], "grow": ["vec", "unix_sink"],
         "cur_src": ["cursor_vec", "cursor_slice"], "cur_sink": ["cursor_sink"], "file": ["file", "ofd", "bfd"]}


def judge(ctx, name, events):
    mism = validate_trace(ctx, TRACE_TLA, os.path.join(SPEC, "Trace_Streams.C13.cfg"), name, events, encode=False, timeout=3000)
    out = os.path.join(WORK, name + ".out")
    guard = parse_tagged(out, "STDMODEL")
    if guard:
        g = guard[0]
        raise ToolError("the specification's reading of std::io disagrees with std itself at event %d (%s): %s / %s" % (
            g[0], g[1], json.dumps(events[g[0] - 1])[:600], json.dumps(g[2])[:300]))
    for m in mism:
        i, tag, exp = m[0], m[1], m[2]
        ev = events[i - 1]
        j = i - 1
        while events[j]["op"] != "init":
            j -= 1
        ctx.mismatch({"module": "Streams", "tag": tag, "op": ev["op"], "a": ev["a"], "r": ev["r"]["vol"], "std": ev["r"]["std"],
                      "kind": events[j]["a"]["kind"]},
                     {"module": "streams", "program": [{"op": e["op"], "a": e["a"]} for e in events[j:i]],
                      "expected": exp, "observed": ev})


def judge_chunks(ctx, name, events, size=100000):
    chunk, k = [], 0
    for h in split_events(events):
        chunk += h
        if len(chunk) > size:
            judge(ctx, "%s_%d" % (name, k), chunk)
            chunk, k = [], k + 1
    if chunk:
        judge(ctx, "%s_%d" % (name, k), chunk)


def rnd_history(rnd, nops):
    kind = rnd.choice([k for ks in KINDS.values() for k in ks])
    n = rnd.choice([0, 1, 2, 7, 8, 9, 10, 16, 17, 40])
    data = [rnd.randrange(256) for _ in range(n)]
    pos = rnd.choice([0, 0, 0, 1, n, n + 1, n + 7]) if kind.startswith(("cursor", "file", "ofd", "bfd")) else 0
    prog = [{"op": "init", "a": {"kind": kind, "data": data, "pos": pos}}]
    for _ in range(nops):
        k = rnd.random()
        bl = rnd.choice([0, 1, 2, 3, 7, 8, 9, 10, 17, 33])
        if k < 0.25:
            prog.append({"op": "read", "a": {"bl": bl}})
        elif k < 0.45:
            prog.append({"op": "read_exact", "a": {"bl": bl}})
        elif k < 0.65:
            prog.append({"op": "write", "a": {"buf": [rnd.randrange(256) for _ in range(bl)]}})
        elif k < 0.85:
            prog.append({"op": "write_all", "a": {"buf": [rnd.randrange(256) for _ in range(bl)]}})
        else:
            prog.append({"op": "set_pos", "a": {"p": rnd.choice([0, 1, max(n - 1, 0), n, n + 1, n + 5, 100])}})
    return prog


def chunk_history(rnd):
    n = rnd.choice([9, 12, 17, 24, 40])
    data = [rnd.randrange(256) for _ in range(n)]
    k = rnd.choice([1, 2, 2, 3])
    sizes = [rnd.choice([1, 2, 3, 5, 7]) for _ in range(k)]
    prog = [{"op": "init", "a": {"kind": "unix_chunks", "chunks": sizes, "data": data, "pos": 0}}]
    for _ in range(rnd.choice([1, 2, 3])):
        prog.append({"op": "read_exact", "a": {"bl": rnd.choice([1, 4, 8, 9, 10, 16, n, n + 1])}})
    return prog


def run(ctx):
    r = tlc_must_pass(TLA, os.path.join(SPEC, "MC_Streams.quick.cfg"), "mc_streams", workers=8, timeout=900)
    ctx.add_mc(r, "MC_Streams.quick.cfg")
    ctx.cov["exhaustive"] = True
    cfgs = ["Gen_Streams.quick.cfg"] if ctx.tier == "quick" else ["Gen_Streams.quick.cfg", "Gen_Streams.thorough.cfg"]
    for cfg in cfgs:
        r, inits, edges = gen_run(TLA, os.path.join(SPEC, cfg), "gen_streams", workers=8, timeout=1800)
        ctx.add_mc(r, cfg)
        hists, covered = edges_to_histories(inits, edges, chunk=50)
        prog = []
        nh = 0
        for h in hists:
            s0 = h[0]["a"]
            for kind in KINDS[s0["cls"]]:
                prog.append({"op": "init", "a": {"kind": kind, "data": s0["data"], "pos": s0["pos"]}})
                prog += [{"op": a["op"], "a": a["a"]} for a in h[1:]]
                nh += 1
        events = run_harness("streams", prog, os.path.join(WORK, "gen_streams.ev.ndjson"), ctx=ctx)
        judge_chunks(ctx, "gent_streams", events)
        ctx.cov["gen_tests_replayed"] += covered
        ctx.cov["traces_validated_against_impl"] += nh
        ctx.cov.setdefault("gen_edges", 0)
        ctx.cov["gen_edges"] += len(edges)
        ctx.sample({"kind": "spec-generated call sequence, replayed on every adapter of its class", "config": cfg,
                    "steps": hists[len(hists) // 2]})
        log("[gen] %s: %d edges -> %d histories x adapters = %d runs, %d events" % (cfg, len(edges), len(hists), nh, len(events)))
    nhist, nops = (2500, 12) if ctx.tier == "quick" else (12000, 16)
    prog = []
    for _ in range(nhist):
        prog += rnd_history(ctx.rnd, nops)
    # sockets that deliver their data in several chunks (short reads inside the exact loop)
    for _ in range(60 if ctx.tier == "quick" else 600):
        prog += chunk_history(ctx.rnd)
    # a descriptor that takes less than it is offered (non-blocking socket, smallest send buffer, peer not reading)
    prog.append({"op": "init", "a": {"kind": "vec", "data": [], "pos": 0}})
    nfull = 0
    for ln in (1, 100, 4000, 4480, 4481, 5000, 9000, 60000, 300000):
        for exact in (False, True):
            prog.append({"op": "full_sock", "a": {"len": ln, "exact": exact}})
            nfull += 1
    events = run_harness("streams", prog, os.path.join(WORK, "tr_streams.ev.ndjson"), ctx=ctx)
    short = sum(1 for e in events if e["op"] == "full_sock" and e["r"]["delivered"] < e["a"]["len"])
    if short < 4:
        raise ToolError("the full-socket sink did not produce short writes (%d)" % short)
    ctx.cov["short_descriptor_writes"] = short
    judge_chunks(ctx, "tr_streams", events)
    ctx.cov["traces_validated_against_impl"] += nhist + nfull
    ctx.sample({"kind": "recorded adapter history (volatile call and std twin) validated by Trace_Streams", "events": events[:4]})
    ctx.assumptions += [
        "the reference semantics is std::io of the installed toolchain: every event also validates the real std result "
        "against the specification (STDMODEL guard)",
        "position / contents after a FAILED exact transfer are not compared (std leaves them unspecified)",
        "TcpStream and Stdout adapters are not driven (same raw-fd code path as File/UnixStream/OwnedFd/BorrowedFd)",
    ]
