"""Shared machinery of the vm-memory verification framework.

* builds the harness (cargo, path dependency on /repo, --cfg vm_memory_verif)
* runs TLC (model checking, edge emission for test generation, trace validation)
* turns TLC's edge lines into one test per transition (shortest path + the edge)
* runs operation programs through the harness
* band-encodes 64-bit numbers for TLC's 32-bit integers (DESIGN.md section 3)
* known findings, replay files, evidence files, exit codes
"""
import json
import os
import re
import subprocess
import sys
import time
import hashlib
import random
from collections import deque

ROOT = os.path.dirname(os.path.dirname(os.path.abspath(__file__)))
SPEC = os.path.join(ROOT, "spec")
WORK = os.path.join(ROOT, "work")
HARNESS = os.path.join(ROOT, "harness")
# evidence of runs against a deliberately changed tree (tools/seedeval.py) goes elsewhere, never into /verif/evidence
EVID = os.environ.get("VERIF_EVIDENCE_DIR") or os.path.join(ROOT, "evidence")
REPLAYS = os.path.join(ROOT, "replays")
KNOWN = os.path.join(ROOT, "known_findings.json")

WORD = 1 << 30          # model word in trace validation
BAND = 1 << 20          # half-width of a band
U64 = 1 << 64


class ToolError(Exception):
    """Something in the machinery (not in the code under test) failed: exit 2."""


def log(*a):
    print(*a, flush=True)


# --------------------------------------------------------------------------
# band encoding
# --------------------------------------------------------------------------
# anchors (concrete, model, half-width): 2^64/k for the k whose remainder 2^64 mod k equals 2^30 mod k, so that
# multiplying a value near 2^64/k by k (or a divisor of k) lands in a band again with the same offset structure
_ANCH = [(0, 0, BAND)]
for _k, _hw in ((16, 1 << 12), (12, 1 << 12), (8, 1 << 12), (6, 1 << 12), (4, 1 << 14), (3, 1 << 12), (2, BAND), (1, BAND)):
    assert (U64 % _k) == (WORD % _k)
    _ANCH.append((U64 // _k, WORD // _k, _hw))


def enc(v):
    """concrete 64-bit number -> model number (< 2*WORD)."""
    if v < 0:
        raise ToolError("negative number in trace: %r" % v)
    for (c, m, hw) in _ANCH:
        if c - hw <= v < c + hw or (c == U64 and v <= c + hw and v >= c - hw):
            return m + (v - c)
    raise ToolError("number outside the bands: %d" % v)


def dec(m):
    """model number -> concrete number."""
    for (c, mm, hw) in _ANCH:
        if mm - hw <= m < mm + hw:
            return c + (m - mm)
    if m >= WORD - BAND:
        return U64 + (m - WORD)
    raise ToolError("model number outside the bands: %d" % m)


def enc_all(x):
    if isinstance(x, bool):
        return x
    if isinstance(x, int):
        return enc(x)
    if isinstance(x, list):
        return [enc_all(y) for y in x]
    if isinstance(x, dict):
        return {k: enc_all(v) for k, v in x.items()}
    return x


def dec_all(x):
    if isinstance(x, bool):
        return x
    if isinstance(x, int):
        return dec(x)
    if isinstance(x, list):
        return [dec_all(y) for y in x]
    if isinstance(x, dict):
        return {k: dec_all(v) for k, v in x.items()}
    return x


# --------------------------------------------------------------------------
# harness
# --------------------------------------------------------------------------
_built = {}


def build_harness(pkg="vmh", release=False):
    """cargo build (offline); rebuilds vm-memory from /repo's working tree when it changed."""
    key = (pkg, release)
    if key in _built:
        return _built[key]
    t0 = time.time()
    cmd = ["cargo", "build", "--offline", "-q", "-p", pkg]
    if release:
        cmd.append("--release")
    env = dict(os.environ)
    env["CARGO_NET_OFFLINE"] = "true"
    p = subprocess.run(cmd, cwd=HARNESS, env=env, stdout=subprocess.PIPE, stderr=subprocess.STDOUT, text=True)
    if p.returncode != 0:
        sys.stderr.write(p.stdout[-6000:])
        raise ToolError("harness build failed (%s)" % " ".join(cmd))
    path = os.path.join(HARNESS, "target", "release" if release else "debug", pkg)
    _built[key] = path
    log("[build] %s %s %.1fs" % (pkg, "release" if release else "dev", time.time() - t0))
    return path


class _Crash(Exception):
    pass


def _run_once(exe, module, prog_path, out_path, timeout, env):
    try:
        p = subprocess.run([exe, module, prog_path, out_path], stdout=subprocess.PIPE, stderr=subprocess.PIPE,
                           text=True, timeout=timeout, env=env)
    except subprocess.TimeoutExpired:
        raise ToolError("harness timed out on %s" % prog_path)
    events = []
    if os.path.exists(out_path):
        with open(out_path) as f:
            for line in f:
                line = line.strip()
                if line:
                    try:
                        events.append(json.loads(line))
                    except ValueError:
                        break          # a line cut short by a crash
    return p.returncode, p.stderr, events


def run_harness(module, program, out_path, pkg="vmh", release=False, timeout=900, extra_env=None, ctx=None, one_event_per_line=True):
    """program: list of dict lines. Returns the list of events.
    If the harness process itself dies (a fault or abort inside the code under test that catch_unwind cannot
    contain), that is DATA when a ctx is given: the operation that was executing is reported as a mismatch
    (a crash is a violation of whatever property is being checked) and execution resumes with the next history."""
    exe = build_harness(pkg, release)
    os.makedirs(WORK, exist_ok=True)
    env = dict(os.environ)
    if extra_env:
        env.update(extra_env)
    if isinstance(program, str):
        rc, err, events = _run_once(exe, module, program, out_path, timeout, env)
        if rc != 0:
            raise ToolError("harness failed rc=%d: %s" % (rc, err[-2000:]))
        return events
    all_events = []
    start = 0
    crashes = 0
    while start < len(program):
        prog_path = out_path + ".prog"
        with open(prog_path, "w") as f:
            for line in program[start:]:
                f.write(json.dumps(line, separators=(",", ":")) + "\n")
        rc, err, events = _run_once(exe, module, prog_path, out_path, timeout, env)
        if rc == 0:
            all_events += events
            break
        if (rc > 0 and rc not in (101, 103)) or ctx is None or not one_event_per_line:
            raise ToolError("harness failed rc=%d: %s" % (rc, err[-2000:]))
        if rc == 101 and "harness:" in err:
            raise ToolError("harness failed rc=%d: %s" % (rc, err[-2000:]))
        # killed by a signal (or aborted by a panic that escaped: rc 101) while executing program line start + len(events)
        hang = (rc == 103)
        rc = -rc if rc < 0 else 6
        crashes += 9 if hang else 1       # a hang costs the watchdog limit: stop after three of them
        bad = start + len(events)
        if bad >= len(program):
            raise ToolError("harness died after its last operation (rc=%d)" % rc)
        j = bad
        while j > start and program[j].get("op") != "init":
            j -= 1
        hist = program[j:bad + 1]
        what = "did not return (watchdog)" if hang else "died (signal %d)" % rc
        log("[harness] process %s in %s %s" % (what, program[bad].get("op"), json.dumps(program[bad].get("a"))[:200]))
        ctx.mismatch({"module": module, "tag": "crash", "op": program[bad].get("op"), "a": program[bad].get("a"),
                      "r": ({"k": "hang", "msg": "the call did not return within the watchdog limit"} if hang else
                            {"k": "signal", "sig": rc, "msg": "the process running the library died (signal %d)" % rc})},
                     {"module": module, "pkg": pkg, "program": hist, "expected": "the call returns (a value or an error)",
                      "observed": "the call never returned" if hang else "process killed by signal %d" % rc})
        # keep the events of complete histories, drop the crashed history, resume with the next history
        has_init = any(l.get("op") == "init" for l in program)
        if has_init:
            all_events += events[:max(j - start, 0)]
            nxt = bad + 1
            while nxt < len(program) and program[nxt].get("op") != "init":
                nxt += 1
        else:
            all_events += events
            nxt = bad + 1
        start = nxt
        if crashes >= 25:
            log("[harness] the process died %d times; the rest of this program is not executed (violations are already recorded)" % crashes)
            break
    return all_events


# --------------------------------------------------------------------------
# TLC
# --------------------------------------------------------------------------
class TlcResult:
    def __init__(self):
        self.rc = None
        self.out_path = None
        self.generated = 0
        self.distinct = 0
        self.depth = 0
        self.wall = 0.0
        self.ok = False
        self.error = None
        self.coverage = {}


_RE_STATES = re.compile(r"^(\d+) states generated, (\d+) distinct states found")
_RE_DEPTH = re.compile(r"^The depth of the complete state graph search is (\d+)")


_RE_GLITCH = re.compile(r'Attempted to select nonexistent field "(\w+)" from the record\s*\n\[([^\n]*)')


def _tlc_glitch(out_path):
    """TLC 1.8 with several workers has (rarely, under heavy machine load) reported 'Attempted to select nonexistent
    field "count" from the record [addr |-> 4, count |-> 15, ...]' - a record that HAS the field: another worker was
    normalising (sorting in place) the same RecordValue.  The message contradicts itself, so it cannot be an error of the
    specification; such a run is repeated.  A genuine missing-field error prints a record without the field and is
    not matched here."""
    with open(out_path, errors="replace") as f:
        txt = f.read(400000)
    for m in _RE_GLITCH.finditer(txt):
        if re.search(r'(^|[\[,] *)%s \|->' % re.escape(m.group(1)), m.group(2)):
            return m.group(0).replace("\n", " ")[:200]
    return None


def tlc(tla, cfg, name, workers=8, timeout=900, **kw):
    r = _tlc_once(tla, cfg, name, workers=workers, timeout=timeout, **kw)
    for w in (workers, 1):
        if r.rc == 0 or workers == 1:
            break
        g = _tlc_glitch(r.out_path)
        if not g:
            break
        log("[tlc] %s: TLC-internal race (%s); repeating with %d worker(s)" % (os.path.basename(cfg), g, w))
        r = _tlc_once(tla, cfg, name, workers=w, timeout=timeout * (1 if w > 1 else 4), **kw)
    return r


def _tlc_once(tla, cfg, name, workers=8, timeout=900, env=None, extra=(), heap=None, dfs=False):
    """Run TLC; stdout goes to work/<name>.out. Raises ToolError on tool failures
    (parse errors, timeouts); invariant violations are reported in the result."""
    os.makedirs(WORK, exist_ok=True)
    out_path = os.path.join(WORK, name + ".out")
    meta = os.path.join(WORK, "meta_" + name)
    e = dict(os.environ)
    jopts = ["-Xss1g"]
    if heap:
        jopts.append("-Xmx" + heap)
    if dfs:
        jopts.append("-Dtlc2.tool.queue.IStateQueue=StateDeque")
    e["JAVA_TOOL_OPTIONS"] = " ".join(jopts)
    if env:
        e.update(env)
    cmd = ["timeout", str(timeout), "tlc", "-workers", str(workers), "-metadir", meta, "-cleanup",
           "-noGenerateSpecTE", "-config", cfg] + list(extra) + [tla]
    t0 = time.time()
    with open(out_path, "w") as f:
        p = subprocess.run(cmd, cwd=WORK, env=e, stdout=f, stderr=subprocess.STDOUT)
    r = TlcResult()
    r.rc = p.returncode
    r.out_path = out_path
    r.wall = time.time() - t0
    subprocess.run(["rm", "-rf", meta])
    with open(out_path, errors="replace") as f:
        for line in f:
            m = _RE_STATES.match(line)
            if m:
                r.generated = int(m.group(1))
                r.distinct = int(m.group(2))
            m = _RE_DEPTH.match(line)
            if m:
                r.depth = int(m.group(1))
            if line.startswith("Error:") and r.error is None:
                r.error = line.strip()
    if r.rc == 124:
        raise ToolError("TLC timed out after %ds on %s (%s)" % (timeout, tla, cfg))
    r.ok = (r.rc == 0)
    return r


def tlc_must_pass(tla, cfg, name, **kw):
    """Design check: any TLC error (invariant violated, assumption false, parse error) is a
    tool error of the framework - the specification itself is wrong or contradicts itself."""
    r = tlc(tla, cfg, name, **kw)
    if not r.ok and kw.get("workers", 8) != 1 and not kw.get("extra"):
        # A genuine error of the specification reproduces with one worker.  TLC 1.8 with several workers has failed spuriously
        # on this machine under load (a race in its record values, see _tlc_glitch); the failing output is kept and the
        # run repeated single-worker - only that verdict counts.
        keep = r.out_path + ".failed"
        try:
            os.replace(r.out_path, keep)
        except OSError:
            keep = None
        log("[tlc] %s failed with %d workers (rc=%s, output kept in %s); repeating with one worker" % (
            os.path.basename(cfg), kw.get("workers", 8), r.rc, keep))
        kw1 = dict(kw, workers=1, timeout=kw.get("timeout", 900) * 4)
        r = tlc(tla, cfg, name, **kw1)
    if not r.ok:
        tail = subprocess.run(["tail", "-n", "40", r.out_path], stdout=subprocess.PIPE, text=True).stdout
        raise ToolError("TLC failed on %s / %s (rc=%s)\n%s" % (os.path.basename(tla), os.path.basename(cfg), r.rc, tail))
    if r.distinct == 0:
        raise ToolError("TLC explored no states on %s" % tla)
    return r


def parse_coverage(out_path):
    """Per-action counts from -coverage 1 output: {action_name: (distinct, generated)}."""
    cov = {}
    rx = re.compile(r"^<(\w+) line \d+, col \d+ to line \d+, col \d+ of module (\w+)>: (\d+):(\d+)")
    with open(out_path, errors="replace") as f:
        for line in f:
            m = rx.match(line)
            if m:
                cov[m.group(1)] = (int(m.group(3)), int(m.group(4)))
    return cov


def _unescape(s):
    # TLC prints a TLA+ string: backslash-escaped quotes and backslashes
    return s.replace('\\"', '"').replace("\\\\", "\\")


def parse_tagged(out_path, tag):
    """Lines printed by PrintT(<<"TAG", ..., "json">>): yields (ints..., obj)."""
    prefix = '<<"%s", ' % tag
    res = []
    with open(out_path, errors="replace") as f:
        for line in f:
            if not line.startswith(prefix):
                continue
            line = line.rstrip("\n")
            if line.endswith('">>  FALSE') or line.endswith('">>  TRUE'):
                line = line[:line.rindex('">>') + 3]
            if not line.endswith('">>'):
                raise ToolError("truncated %s line in %s" % (tag, out_path))
            body = line[len(prefix):-3]
            # split leading non-json fields (ints / strings) from the final json string
            idx = body.index('"{') if '"{' in body else body.index('"[')
            head = body[:idx].rstrip(", ")
            js = _unescape(body[idx + 1:])
            fields = []
            if head:
                for part in head.split(", "):
                    part = part.strip()
                    if part.startswith('"'):
                        fields.append(part.strip('"'))
                    else:
                        fields.append(int(part))
            res.append(tuple(fields) + (json.loads(js, object_pairs_hook=_nodup),))
    return res


class GlitchError(Exception):
    pass


def _nodup(pairs):
    d = dict(pairs)
    if len(d) != len(pairs):
        raise GlitchError("duplicate key in a record printed by TLC: %s" % [k for k, _ in pairs])
    return d


def gen_run(tla, cfg, name, workers=8, timeout=1800):
    """Run a Gen configuration and parse its INIT / EDGE lines.  Once, under heavy machine load, a multi-worker
    TLC run printed an action record with a field missing (cf. the multi-worker serialisation problem noted in
    DESIGN.md section 9); a generated test is only usable if every action of one name carries the same argument
    names, so that is checked here and the run is repeated single-worker (deterministic) if it does not hold."""
    for attempt, w in enumerate((workers, 1)):
        r = tlc_must_pass(tla, cfg, name, workers=w, timeout=timeout if attempt == 0 else timeout * 4)
        try:
            inits = parse_tagged(r.out_path, "INIT")
            edges = parse_tagged(r.out_path, "EDGE")
            shape = {}
            for (o,) in edges:
                a = o["act"]
                k = frozenset(a["a"].keys()) if isinstance(a.get("a"), dict) else None
                if shape.setdefault(a["op"], k) != k:
                    raise GlitchError("action %s printed with argument names %s and %s" % (a["op"], sorted(shape[a["op"]]), sorted(k)))
            return r, inits, edges
        except GlitchError as e:
            log("[gen] %s: inconsistent TLC output (%s)%s" % (os.path.basename(cfg), e, "; repeating single-worker" if attempt == 0 else ""))
    raise ToolError("TLC output of %s is inconsistent even single-worker" % cfg)


# --------------------------------------------------------------------------
# test generation from the state graph
# --------------------------------------------------------------------------
def skey(state):
    return json.dumps(state, sort_keys=True, separators=(",", ":"))


def edges_to_tests(inits, edges, limit=None, seed=0):
    """inits: [(obj{t,act})], edges: [(obj{f,act,t})].
    Returns a list of tests; a test is dict(steps=[act...], exp=[state after each step])
    whose last step is the transition under test, reached by a shortest path from an initial state."""
    parent = {}
    init_act = {}
    adj = {}
    for (o,) in inits:
        k = skey(o["t"])
        if k not in init_act:
            init_act[k] = o
    for (o,) in edges:
        adj.setdefault(skey(o["f"]), []).append(o)
    q = deque(init_act.keys())
    seen = set(init_act.keys())
    while q:
        k = q.popleft()
        for o in adj.get(k, ()):
            tk = skey(o["t"])
            if tk not in seen:
                seen.add(tk)
                parent[tk] = (k, o)
                q.append(tk)
    pathcache = {}

    def path(k):
        if k in pathcache:
            return pathcache[k]
        if k in init_act:
            o = init_act[k]
            p = ([o["act"]], [o["t"]])
        else:
            pk, o = parent[k]
            s, e = path(pk)
            p = (s + [o["act"]], e + [o["t"]])
        pathcache[k] = p
        return p

    all_edges = [o for (o,) in edges if skey(o["f"]) in seen]
    unreachable = len(edges) - len(all_edges)
    if unreachable:
        raise ToolError("%d emitted edges start in states not reachable from an initial state" % unreachable)
    if limit is not None and len(all_edges) > limit:
        rnd = random.Random(seed)
        all_edges = rnd.sample(all_edges, limit)
    tests = []
    for o in all_edges:
        s, e = path(skey(o["f"]))
        tests.append({"steps": s + [o["act"]], "exp": e + [o["t"]]})
    return tests


def edges_to_histories(inits, edges, chunk=120, limit_states=None, seed=0):
    """Like edges_to_tests, but packs the edges that leave the state unchanged (queries, reads, refused
    requests) into shared histories: for every reachable state f one or more histories
    path(f) + [self-loop acts...], and for every state-changing edge a history path(f) + [act].
    Returns a list of histories (lists of act dicts) and the number of edges covered."""
    parent = {}
    init_act = {}
    adj = {}
    for (o,) in inits:
        k = skey(o["t"])
        init_act.setdefault(k, o)
    for (o,) in edges:
        adj.setdefault(skey(o["f"]), []).append(o)
    q = deque(init_act.keys())
    seen = set(init_act.keys())
    order = list(init_act.keys())
    while q:
        k = q.popleft()
        for o in adj.get(k, ()):
            tk = skey(o["t"])
            if tk not in seen:
                seen.add(tk)
                parent[tk] = (k, o)
                q.append(tk)
                order.append(tk)
    pathcache = {}

    def path(k):
        if k in pathcache:
            return pathcache[k]
        if k in init_act:
            p = [init_act[k]["act"]]
        else:
            pk, o = parent[k]
            p = path(pk) + [o["act"]]
        pathcache[k] = p
        return p

    states = [k for k in order if k in adj]
    if limit_states is not None and len(states) > limit_states:
        rnd = random.Random(seed)
        keep = set(rnd.sample(states, limit_states))
        keep.update(init_act.keys())
        states = [k for k in states if k in keep]
    hists = []
    covered = 0
    for k in states:
        loops = [o["act"] for o in adj[k] if skey(o["t"]) == k]
        moves = [o["act"] for o in adj[k] if skey(o["t"]) != k]
        for i in range(0, len(loops), chunk):
            hists.append(path(k) + loops[i:i + chunk])
        for a in moves:
            hists.append(path(k) + [a])
        covered += len(loops) + len(moves)
    return hists, covered


def split_events(events):
    """Split a flat event list into histories at 'init' events."""
    hist = []
    for ev in events:
        if ev["op"] == "init":
            hist.append([])
        hist[-1].append(ev)
    return hist


# --------------------------------------------------------------------------
# known findings
# --------------------------------------------------------------------------
def load_known():
    if not os.path.exists(KNOWN):
        return []
    with open(KNOWN) as f:
        data = json.load(f)
    return [k for k in data.get("findings", []) if k.get("status") == "open"]


def match_known(known, pid, sig):
    """sig: dict describing a mismatch (op, a, r, tag, build, ...)."""
    for k in known:
        if k["property"] != pid:
            continue
        m = k.get("match", {})
        ok = True
        if "op" in m and sig.get("op") not in m["op"]:
            ok = False
        if ok and "module" in m and sig.get("module") != m["module"]:
            ok = False
        if ok and "where" in m:
            try:
                ok = bool(eval(m["where"], {"__builtins__": {}}, {"a": sig.get("a", {}), "r": sig.get("r", {}),
                                                                   "sig": sig, "len": len, "U64": U64}))
            except Exception:
                ok = False
        if ok:
            return k
    return None


# --------------------------------------------------------------------------
# the per-run context: evidence, violations, exit status
# --------------------------------------------------------------------------
class Ctx:
    def __init__(self, pid, tier, seed, level="model_checking"):
        self.pid = pid
        self.tier = tier
        self.seed = seed
        self.level = level
        self.t0 = time.time()
        self.cov = {"states": 0, "transitions": 0, "traces_validated_against_impl": 0, "samples": [],
                    "gen_tests_replayed": 0, "events_validated": 0, "configs": [], "exhaustive": False,
                    "known_findings_seen": [], "drift": []}
        self.assumptions = []
        self.violations = 0
        self.known = load_known()
        self.classes = {}
        self.rnd = random.Random(seed)
        os.makedirs(REPLAYS, exist_ok=True)
        os.makedirs(EVID, exist_ok=True)
        os.makedirs(WORK, exist_ok=True)

    # --- accounting -------------------------------------------------------
    def add_mc(self, r, label):
        self.cov["states"] += r.distinct
        self.cov["transitions"] += r.generated
        self.cov["configs"].append({"config": label, "distinct_states": r.distinct, "transitions": r.generated,
                                    "depth": r.depth, "wall_s": round(r.wall, 1)})
        log("[tlc] %s: %d distinct states, %d transitions, depth %d, %.1fs" % (label, r.distinct, r.generated, r.depth, r.wall))

    def sample(self, obj):
        if len(self.cov["samples"]) < 6:
            self.cov["samples"].append(obj)

    # --- verdicts ---------------------------------------------------------
    def mismatch(self, sig, replay):
        """A disagreement between specification and implementation on something the property states.
        Known findings print KNOWN-FINDING and do not count; anything else is a violation."""
        k = match_known(self.known, self.pid, sig)
        if k is not None:
            line = "KNOWN-FINDING: property=%s %s" % (self.pid, k["what"])
            if line not in self.cov["known_findings_seen"]:
                self.cov["known_findings_seen"].append(line)
                log(line)
            return False
        self.violations += 1
        key = "%s/%s/%s/%s" % (sig.get("tag", sig.get("kind")), sig.get("op"), (sig.get("r") or {}).get("k"),
                               str((sig.get("r") or {}).get("msg", (sig.get("r") or {}).get("e", "")))[:60])
        self.classes[key] = self.classes.get(key, 0) + 1
        if self.violations <= 5:
            n = self.violations
            path = os.path.join(REPLAYS, "%s-%s-%d-%d.json" % (self.pid, self.tier, self.seed, n))
            with open(path, "w") as f:
                json.dump({"property": self.pid, "seed": self.seed, "tier": self.tier, "signature": sig,
                           "replay": replay}, f, indent=1, default=str)
            log("VIOLATION property=%s replay=%s" % (self.pid, path))
            log("  detail: %s" % json.dumps(sig, default=str)[:1500])
        return True

    def drift(self, what):
        if len(self.cov["drift"]) < 20 and what not in self.cov["drift"]:
            self.cov["drift"].append(what)
            log("DRIFT (not a property violation): %s" % what)

    def finish(self):
        wall = time.time() - self.t0
        ev = {"property_id": self.pid, "tier": self.tier, "seed": self.seed, "level": self.level,
              "coverage": self.cov, "assumptions": self.assumptions, "wall_s": round(wall, 1),
              "violations": self.violations}
        if not self.cov["samples"]:
            raise ToolError("no samples recorded")
        if self.cov["states"] < 1 or self.cov["transitions"] < 1:
            raise ToolError("no model-checking statistics recorded")
        with open(os.path.join(EVID, self.pid + ".json"), "w") as f:
            json.dump(ev, f, indent=1, default=str)
        for k, v in sorted(self.classes.items()):
            log("  violation class %s: %d" % (k, v))
        log("[done] %s %s: states=%d transitions=%d traces/tests against impl=%d violations=%d wall=%.0fs" % (
            self.pid, self.tier, self.cov["states"], self.cov["transitions"],
            self.cov["traces_validated_against_impl"], self.violations, wall))
        return 1 if self.violations else 0


# --------------------------------------------------------------------------
# trace validation
# --------------------------------------------------------------------------
def write_trace(events, path, encode=True):
    with open(path, "w") as f:
        for ev in events:
            f.write(json.dumps(enc_all(ev) if encode else ev, separators=(",", ":")) + "\n")


def validate_trace(ctx, tla, cfg, name, events, encode=True, timeout=900, dfs=False, env=None):
    """Run the trace specification over the events. Returns the list of mismatches
    [(index (1-based), tag, expected-obj)]; raises ToolError when the trace was not consumed
    for a reason other than a printed mismatch (spec/trace shape problems)."""
    path = os.path.join(WORK, name + ".trace.ndjson")
    write_trace(events, path, encode)
    e = {"TRACE": path}
    if env:
        e.update(env)
    r = tlc(tla, cfg, name, workers=1, timeout=timeout, env=e, heap="4g", dfs=dfs)
    mism = parse_tagged(r.out_path, "MISMATCH")
    unmatched = parse_tagged(r.out_path, "UNMATCHED")
    if r.rc != 0 and not unmatched:
        tail = subprocess.run(["tail", "-n", "30", r.out_path], stdout=subprocess.PIPE, text=True).stdout
        raise ToolError("trace validation failed to run (%s rc=%s)\n%s" % (name, r.rc, tail))
    if unmatched:
        raise ToolError("trace not consumed at event %s: %s" % (unmatched[0][0], json.dumps(unmatched[0][-1])[:600]))
    if r.distinct != len(events) + 1:
        raise ToolError("trace validation visited %d states for %d events" % (r.distinct, len(events)))
    ctx.cov["events_validated"] += len(events)
    log("[trace] %s: %d events validated in %.1fs, %d mismatches" % (name, len(events), r.wall, len(mism)))
    # de-duplicate (TLC may evaluate an action more than once)
    seen = set()
    out = []
    for m in mism:
        k = (m[0], m[1])
        if k not in seen:
            seen.add(k)
            out.append(m)
    return out
