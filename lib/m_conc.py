"""BitmapConc pipeline (C08): TLC over the step machines, schedule enumeration on the real AtomicBitmap."""
import os
from vlib import *

TLA = os.path.join(SPEC, "MC_BitmapConc.tla")
TRACE_TLA = os.path.join(SPEC, "Trace_BitmapConc.tla")


def SR(s, l):
    return {"k": "set_range", "s": s, "l": l}


def RR(s, l):
    return {"k": "reset_range", "s": s, "l": l}


def SB(i):
    return {"k": "set_bit", "i": i}


def RB(i):
    return {"k": "reset_bit", "i": i}


H = {"k": "harvest"}
RESET = {"k": "reset"}
CLONE = {"k": "clone"}


def MS(b, s, l):
    return {"k": "mark_slice", "b": b, "s": s, "l": l}


# pages 62,63 | 64,65 straddle the first word boundary of the real bitmap; 127 | 128 the second
QUICK = [
    (130, [[SR(0, 3)], [H, SB(2)]]),
    (130, [[SR(62, 3)], [H, SB(64)]]),
    (130, [[SR(63, 2)], [H], [SB(65)]]),
    (64, [[SB(1)], [SB(2)], [H]]),
    (130, [[SR(62, 2)], [RR(63, 2)], [H]]),
    (64, [[SB(0), CLONE], [H, SB(0)]]),
    (130, [[SB(63), SB(64)], [H, H]]),
    (130, [[SR(62, 4)], [RESET], [SB(63)]]),
    (130, [[MS(60, 3, 2)], [H], [RB(63)]]),
    (130, [[SR(127, 2)], [H], [SR(126, 3)]]),
    (130, [[SR(128, 5)], [H]]),          # runs past the end of the bitmap
    (130, [[SB(5), SB(70)], [RB(40), RB(100)], [H]]),    # clearing one page must not touch lower pages of its word
    (64, [[SR(5, 1), SR(5, 1)], [H]]),                   # the same page marked twice with a harvest in between: both marks count
    (130, [[SB(63), SR(63, 1), SR(64, 1)], [H, H]]),
]
THOROUGH = QUICK + [
    (130, [[SR(62, 3), SB(0)], [H, SB(64), H]]),
    (200, [[SR(62, 4)], [H, H], [RR(63, 2), SB(63)]]),
    (130, [[SR(60, 6)], [H], [SR(63, 3)]]),
    (130, [[SB(63), RB(63), SB(63)], [H, CLONE], [SB(64)]]),
    (64, [[SB(1), SB(2), SB(3)], [H, H], [SB(1), H]]),
    (192, [[SR(126, 4)], [SR(62, 4)], [H]]),
    (130, [[MS(1, 61, 3), SB(5)], [CLONE, H], [RESET, SB(64)]]),
]


def run(ctx):
    r = tlc_must_pass(TLA, os.path.join(SPEC, "MC_BitmapConc.cfg"), "mc_conc", workers=8, timeout=900)
    ctx.add_mc(r, "MC_BitmapConc.cfg")
    if ctx.tier == "thorough":
        r = tlc_must_pass(TLA, os.path.join(SPEC, "MC_BitmapConc.thorough.cfg"), "mc_conc", workers=8, timeout=3000)
        ctx.add_mc(r, "MC_BitmapConc.thorough.cfg")
    # non-vacuity: the load;store variant must lose a mark in the model
    r = tlc(TLA, os.path.join(SPEC, "MC_BitmapConc.neg_split.cfg"), "mc_conc_neg", workers=4, timeout=600)
    if r.ok:
        raise ToolError("negative configuration MC_BitmapConc.neg_split.cfg was not refuted")
    ctx.cov["negative_configs_refuted"] = 1
    ctx.cov["exhaustive"] = True
    scen = QUICK + THOROUGH[len(QUICK):len(QUICK) + 3] if ctx.tier == "quick" else THOROUGH
    cap = 2500 if ctx.tier == "quick" else 40000
    prog = [{"op": "scenario", "a": {"size": size, "threads": th, "max_schedules": cap, "seed": ctx.seed}} for size, th in scen]
    events = run_harness("sched", prog, os.path.join(WORK, "sched.ev.ndjson"), timeout=3000, ctx=ctx, one_event_per_line=False)
    summaries = [e["a"] for e in events if e["op"] == "summary"]
    events = [e for e in events if e["op"] != "summary"]
    nsched = sum(s["schedules"] for s in summaries)
    ctx.cov["schedules_enumerated"] = nsched
    ctx.cov["scenarios"] = [{"size": size, "threads": th, "schedules": s["schedules"], "all_interleavings": s["exhaustive"]}
                            for (size, th), s in zip(scen, summaries)]
    chunk, k, mism_total = [], 0, []
    for h in split_events(events):
        chunk += h
        if len(chunk) > 150000:
            mism_total += judge(ctx, "tr_conc_%d" % k, chunk)
            chunk, k = [], k + 1
    if chunk:
        mism_total += judge(ctx, "tr_conc_%d" % k, chunk)
    ctx.cov["traces_validated_against_impl"] += nsched
    first = split_events(events)[0]
    ctx.sample({"kind": "one enumerated schedule of the real AtomicBitmap (atomic events in scheduler order)",
                "scenario": first[0]["a"]["threads"], "order": first[0]["a"]["order"], "events": [e["a"] for e in first[1:]]})
    log("[sched] %d scenarios, %d schedules, %d events" % (len(scen), nsched, len(events)))
    ctx.assumptions += [
        "the recorded order is sequentially consistent by construction (one atomic step at a time under the baton scheduler): "
        "a weakening of memory orderings (SeqCst -> Relaxed) is not observable",
        "schedules are enumerated exhaustively per scenario up to the cap, then sampled (see coverage.scenarios)",
    ]


def judge(ctx, name, events):
    mism = validate_trace(ctx, TRACE_TLA, os.path.join(SPEC, "Trace_BitmapConc.C08.cfg"), name, events, encode=False, timeout=3000)
    inc = parse_tagged(os.path.join(WORK, name + ".out"), "INCONSISTENT")
    if inc:
        raise ToolError("recorded atomic events are not sequentially consistent at event %d: %s" % (inc[0][0], json.dumps(inc[0][-1])[:300]))
    for m in mism:
        i, tag, exp = m[0], m[1], m[2]
        j = i - 1
        while events[j]["op"] != "init":
            j -= 1
        k = i
        while k < len(events) and events[k]["op"] != "init":
            k += 1
        ctx.mismatch({"module": "BitmapConc", "tag": tag, "op": tag, "a": {"threads": events[j]["a"]["threads"], "order": events[j]["a"]["order"]},
                      "r": {"k": tag}, "event": events[i - 1]["a"]},
                     {"module": "sched", "scenario": events[j]["a"], "history": [e["a"] for e in events[j + 1:k]], "expected": exp,
                      "program": [{"op": "scenario", "a": {"size": events[j]["a"]["size"], "threads": events[j]["a"]["threads"], "max_schedules": 100000}}]})
    return mism
