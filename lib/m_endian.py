"""Endian pipeline (C20)."""
import os
from vlib import *

TYPES = {"Le16": 2, "Be16": 2, "Le32": 4, "Be32": 4, "Le64": 8, "Be64": 8, "LeSize": 8, "BeSize": 8}
PAT = [0x00, 0x01, 0x7F, 0x80, 0xFF]


def other(rnd, v):
    k = rnd.random()
    if k < 0.35:
        return list(reversed(v))            # the byte-swapped value: equal only for palindromes
    if k < 0.7:
        w = list(v)
        i = rnd.randrange(len(w))
        w[i] = (w[i] + rnd.choice([1, 0x80, 0xFF])) % 256
        return w
    if k < 0.8:
        return list(v)
    return [rnd.randrange(256) for _ in v]


def run(ctx):
    r = tlc_must_pass(os.path.join(SPEC, "MC_Endian.tla"), os.path.join(SPEC, "MC_Endian.cfg"), "mc_endian", workers=4, timeout=600)
    ctx.add_mc(r, "MC_Endian.cfg")
    ctx.cov["exhaustive"] = True
    rnd = ctx.rnd
    prog = []
    for ty, nb in TYPES.items():
        if nb == 2:
            for x in range(65536):
                v = [x >> 8, x & 0xFF]
                prog.append({"op": "endian", "a": {"ty": ty, "v": v, "w": other(rnd, v)}})
        else:
            # structured: each byte position through 00,01,7F,80,FF with the others distinct
            for pos in range(nb):
                for pv in PAT:
                    for base in (0x10, 0xA0):
                        v = [(base + i) % 256 for i in range(nb)]
                        v[pos] = pv
                        prog.append({"op": "endian", "a": {"ty": ty, "v": v, "w": other(rnd, v)}})
            for v in ([0] * nb, [0xFF] * nb, [0x80] + [0] * (nb - 1), [0] * (nb - 1) + [1], [0x7F] + [0xFF] * (nb - 1)):
                prog.append({"op": "endian", "a": {"ty": ty, "v": list(v), "w": other(rnd, list(v))}})
            for _ in range(1500 if ctx.tier == "quick" else 25000):
                v = [rnd.randrange(256) for _ in range(nb)]
                prog.append({"op": "endian", "a": {"ty": ty, "v": v, "w": other(rnd, v)}})
    events = run_harness("endian", prog, os.path.join(WORK, "endian.ev.ndjson"), ctx=ctx)
    hosts = set(e["host"] for e in events)
    if hosts != {"le"}:
        raise ToolError("unexpected host byte order %s (Trace_Endian.cfg is written for this sandbox)" % hosts)
    for i in range(0, len(events), 100000):
        chunk = events[i:i + 100000]
        mism = validate_trace(ctx, os.path.join(SPEC, "Trace_Endian.tla"), os.path.join(SPEC, "Trace_Endian.cfg"),
                              "tr_endian_%d" % (i // 100000), chunk, encode=False, timeout=3000)
        for m in mism:
            ev = chunk[m[0] - 1]
            ctx.mismatch({"module": "Endian", "tag": "endian", "op": ev["a"]["ty"], "a": ev["a"], "r": ev["r"]},
                         {"module": "endian", "program": [{"op": "endian", "a": ev["a"]}], "expected": m[2], "observed": ev})
    ctx.cov["traces_validated_against_impl"] += len(events)
    ctx.sample({"kind": "recorded wrapper observations validated by Trace_Endian", "events": events[:2] + events[-2:]})
    ctx.assumptions += [
        "this sandbox is a little-endian host; the big-endian host is covered by the model (MC_Endian) only",
        "the 2^32 sweep of the 32-bit types named in the property is not routed through TLC (structured patterns and "
        "seeded random values are); all 65 536 values of the 16-bit types are validated in both tiers",
    ]
