"""Volatile module pipeline (C01, C04, C05, C16, C17-standard build, C18, C07 at slice/region level)."""
import os
from vlib import *

TLA = os.path.join(SPEC, "MC_Volatile.tla")
TRACE_TLA = os.path.join(SPEC, "Trace_Volatile.tla")

ESZ = [1, 2, 3, 4, 5, 6, 7, 8, 12, 16]
ALIGNED = [(1, 1), (2, 1), (3, 1), (4, 1), (5, 1), (6, 1), (7, 1), (8, 1), (12, 1), (16, 1), (2, 2), (4, 2), (6, 2), (8, 2),
           (12, 2), (16, 2), (4, 4), (8, 4), (12, 4), (16, 4), (8, 8), (16, 8), (16, 16)]
BIG = [U64 - 1, U64 - 2, U64 - 8, U64 - 4096, (1 << 63), (1 << 63) - 1, (1 << 63) + 1, (1 << 63) - 8, (1 << 63) + 4096,
       # counts whose byte size wraps modulo 2^64 to something small: 2^64 / element size (+ a little)
       (1 << 62), (1 << 62) + 1, (1 << 62) + 4, (1 << 61), (1 << 61) + 1, (1 << 61) + 2, (1 << 60), (1 << 60) + 1,
       U64 // 3 + 1, U64 // 3 + 2, U64 // 6 + 1, U64 // 12 + 1, U64 // 12 + 2]


def mc(ctx):
    cfgs = ["MC_Volatile.quick.cfg"] if ctx.tier == "quick" else ["MC_Volatile.quick.cfg", "MC_Volatile.thorough.cfg"]
    for c in cfgs:
        r = tlc_must_pass(TLA, os.path.join(SPEC, c), "mc_volatile_" + ctx.pid, workers=8, timeout=2400)
        ctx.add_mc(r, c)
    ctx.cov["exhaustive"] = True


def neg_fix(x):
    """A negative offset (accessor before the root) cannot be band-encoded: map it to usize::MAX so the
    specification rejects it under the extent comparison."""
    if isinstance(x, bool):
        return x
    if isinstance(x, int):
        return U64 - 1 if x < 0 else x
    if isinstance(x, list):
        return [neg_fix(y) for y in x]
    if isinstance(x, dict):
        return {k: neg_fix(v) for k, v in x.items()}
    return x


def judge(ctx, name, events, zst_filter=None):
    """Validate events with the property's trace configuration and turn mismatches into verdicts."""
    cfg = os.path.join(SPEC, "Trace_Volatile.%s.cfg" % ctx.pid)
    mism = validate_trace(ctx, TRACE_TLA, cfg, name, [neg_fix(e) for e in events], timeout=3000)
    for m in mism:
        i, tag, exp = m[0], m[1], m[2]
        ev = events[i - 1]
        j = i - 1
        while events[j]["op"] != "init":
            j -= 1
        sig = {"module": "Volatile", "tag": tag, "op": ev["op"], "a": ev["a"], "r": ev["r"],
               "cur_before": events[i - 2]["s"].get("cur") if i >= 2 else None, "root": events[j]["a"]}
        ctx.mismatch(sig, {"module": "volatile", "program": [{"op": e["op"], "a": e["a"]} for e in events[j:i]],
                           "expected": exp, "observed": ev})
    for d in parse_tagged(os.path.join(WORK, name + ".out"), "DRIFT")[:20]:
        ev = events[d[0] - 1]
        ctx.drift("%s %s: error variant %s, specification %s" % (ev["op"], json.dumps(ev["a"]), ev["r"].get("e"),
                                                                  d[2]["res"].get("e")))
    return mism


def gen(ctx):
    cfgs = ["Gen_Volatile.quick.cfg"] if ctx.tier == "quick" else ["Gen_Volatile.quick.cfg", "Gen_Volatile.A.cfg", "Gen_Volatile.B.cfg"]
    for cfg in cfgs:
        r, inits, edges = gen_run(TLA, os.path.join(SPEC, cfg), "gen_volatile_" + ctx.pid, workers=8, timeout=2400)
        ctx.add_mc(r, cfg)
        hists, covered = edges_to_histories(inits, edges)
        prog = []
        for h in hists:
            for i, a in enumerate(h):
                args = dict(a["a"])
                if i == 0:
                    args["root"] = "region" if args["root"] == "region" else "heap"
                prog.append({"op": a["op"], "a": args})
        events = run_harness("volatile", prog, os.path.join(WORK, "gen_volatile_%s.ev.ndjson" % ctx.pid), ctx=ctx)
        if len(events) != len(prog) and ctx.violations == 0:
            raise ToolError("harness returned %d events for %d program lines" % (len(events), len(prog)))
        judge(ctx, "gent_volatile_" + ctx.pid, events)
        ctx.cov["gen_tests_replayed"] += covered
        ctx.cov["traces_validated_against_impl"] += len(hists)
        ctx.cov.setdefault("gen_edges", 0)
        ctx.cov["gen_edges"] += len(edges)
        if hists:
            ctx.sample({"kind": "spec-generated transition test (shortest path + transition)", "config": cfg,
                        "steps": hists[len(hists) // 2][:8]})
        log("[gen] %s: %d edges -> %d histories, %d events" % (cfg, len(edges), len(hists), len(events)))


# ---------------------------------------------------------------------------
# boundary-biased random driver (arguments relative to the current accessor)
# ---------------------------------------------------------------------------
def rnd_history(rnd, nops, zst):
    root = rnd.choice(["heap", "heap", "heap", "region"])
    n = rnd.choice([0, 1, 2, 3, 5, 8, 9, 15, 16, 17, 24, 31, 32, 33, 64, 100, 130, 200])
    if root == "region" and n == 0:
        n = 1
    b = rnd.randint(0, 15) if root == "heap" else 0
    p = rnd.choice([1, 1, 2, 3, 7, 8, 16, 64, n + 1, 4096]) if n < 100 else rnd.choice([1, 1, 1, 2, 3])
    prog = [{"op": "init", "a": {"root": root, "n": n, "b": b, "p": p}}]

    def pos():
        k = rnd.random()
        if k < 0.45:
            return {"len": rnd.choice([-9, -8, -7, -5, -4, -3, -2, -1, -1, 0, 0, 1, 2])}
        if k < 0.9:
            return rnd.choice([0, 0, 1, 2, 3, 4, 5, 7, 8, 9, 15, 16, 17])
        return rnd.choice(BIG)

    def cnt():
        k = rnd.random()
        if k < 0.4:
            return {"len": rnd.choice([-9, -8, -4, -3, -2, -1, 0, 0, 1, 2])}
        if k < 0.9:
            return rnd.choice([0, 0, 1, 2, 3, 4, 7, 8, 9, 10, 16, 17])
        return rnd.choice(BIG)

    def wrap_pair():
        """(offset, count) whose sum wraps modulo 2^64 to a small number: a bound check done with wrapping arithmetic
        accepts these (seeded change C01-m3)."""
        o = rnd.choice([1, 1, 2, 3, 4, 7, 8, 9, 16])
        return o, (1 << 64) - o + rnd.choice([0, 0, 1, 2, 3, -1, o - 1]) % o      # count < 2^64, o + count = 2^64 + (0 .. o-1)

    def blen():
        if n >= 100 and rnd.random() < 0.3:
            # with one-byte pages a bitmap word is 64 pages: ranges ending just before / at / after a word boundary
            return rnd.choice([62, 63, 64, 65, 126, 127, 128, 129])
        return rnd.choice([0, 0, 1, 2, 3, 4, 7, 8, 9, 10, 15, 16, 17, 33, {"len": 0}, {"len": 1}, {"len": -1}, {"len": 3}])

    def esz():
        if zst and rnd.random() < 0.25:
            return 0
        return rnd.choice(ESZ)

    def buf(bl, mul=1, mulesz=False):
        d = {"blen": bl, "seed": rnd.randint(0, 250)}
        if mul != 1:
            d["mul"] = mul
        if mulesz:
            d["mulesz"] = True
        return d

    def target():
        to = rnd.randint(0, n)
        return to, rnd.randint(0, n - to)

    for _ in range(nops):
        k = rnd.random()
        if k < 0.30:      # derivations
            op = rnd.choice(["subslice", "subslice", "get_slice", "offset", "split_at", "get_ref", "get_array_ref",
                             "get_array_ref", "to_slice", "ref_at", "array_from_slice", "as_volatile_slice", "root", "root"])
            if root == "region" and rnd.random() < 0.4:
                prog.append({"op": "root", "a": {}})       # exercise the region's own VolatileMemory implementation
            if op in ("subslice", "get_slice"):
                a = {"o": pos(), "c": cnt()}
                if rnd.random() < 0.2:
                    a["o"], a["c"] = wrap_pair()
            elif op == "offset":
                a = {"c": pos()}
            elif op == "split_at":
                a = {"m": pos(), "pick": rnd.randint(0, 1)}
            elif op == "get_ref":
                a = {"o": pos(), "esz": esz()}
            elif op == "get_array_ref":
                e = esz()
                a = {"o": pos(), "n": rnd.choice([0, 1, 2, 3, 4, 5, 8, 9, {"len": 0}, {"len": -1}, rnd.choice(BIG)]), "esz": e}
            elif op == "ref_at":
                a = {"i": rnd.choice([0, 0, 1, 2, 3, {"n": -1}, {"n": 0}, {"n": 1}, rnd.choice(BIG)])}
            else:
                a = {}
        elif k < 0.42:    # queries
            op = rnd.choice(["compute_end_offset", "len", "ptr_guard", "ptr_guard", "get_atomic_ref", "aligned_as_ref",
                             "aligned_as_mut", "bv_from_slice", "bv_from_mut_slice"])
            if op == "compute_end_offset":
                a = {"base": pos(), "off": cnt()}
                if rnd.random() < 0.1:
                    a["base"], a["off"] = wrap_pair()
            elif op == "get_atomic_ref":
                a = {"o": pos(), "esz": rnd.choice([1, 2, 4, 8])}
            elif op in ("aligned_as_ref", "aligned_as_mut"):
                e, al = rnd.choice(ALIGNED)
                a = {"o": pos(), "esz": e, "al": al}
            elif op in ("bv_from_slice", "bv_from_mut_slice"):
                e, al = rnd.choice(ALIGNED)
                a = {"o": pos(), "n": rnd.choice([e, e, e, e, e - 1, e + 1, 0, 2 * e]), "esz": e, "al": al}
            else:
                a = {}
        else:             # data
            op = rnd.choice(["write", "write", "read", "write_slice", "read_slice", "write_obj", "read_obj", "store", "load",
                             "copy_to", "copy_from", "copy_to_volatile_slice", "read_volatile_from",
                             "read_exact_volatile_from", "write_volatile_to", "write_all_volatile_to", "read_from_bad_fd",
                             "write_to_cursor", "write_all_to_cursor", "write_to_bad_fd", "read_cursor", "read_exact_cursor",
                             "ref_store", "ref_load", "arr_load", "arr_store", "arr_copy_to", "arr_copy_from",
                             "arr_copy_to_volatile_slice", "bitmap_reset"])
            if op in ("write", "write_slice"):
                a = {"addr": pos(), "buf": buf(blen())}
            elif op in ("read", "read_slice"):
                a = {"addr": pos(), "bl": blen()}
            elif op == "write_obj":
                a = {"addr": pos(), "buf": buf(esz())}
            elif op == "read_obj":
                a = {"addr": pos(), "esz": esz()}
            elif op == "store":
                a = {"addr": pos(), "buf": buf(rnd.choice([1, 2, 4, 8]))}
            elif op == "load":
                a = {"addr": pos(), "esz": rnd.choice([1, 2, 4, 8])}
            elif op == "copy_to":
                a = {"esz": esz(), "bl": rnd.choice([0, 1, 2, 3, 5, 8, 9, 20])}
            elif op == "copy_from":
                e = esz()
                a = {"esz": e, "buf": buf(rnd.choice([0, 1, 2, 3, 5, 8, 9, 20]), mul=e)}
            elif op in ("copy_to_volatile_slice", "arr_copy_to_volatile_slice"):
                to, tc = target()
                a = {"to": to, "tc": tc}
            elif op in ("read_volatile_from", "read_exact_volatile_from"):
                a = {"addr": pos(), "src": buf(rnd.choice([0, 1, 2, 5, 8, 9, 17, 40])), "count": cnt()}
            elif op in ("write_volatile_to", "write_all_volatile_to", "read_from_bad_fd", "write_to_bad_fd"):
                a = {"addr": pos(), "count": cnt()}
                if rnd.random() < 0.06:
                    a["addr"], a["count"] = wrap_pair()
            elif op in ("read_cursor", "read_exact_cursor"):
                a = {"addr": pos(), "src": buf(rnd.choice([0, 1, 2, 5, 8, 9, 17, 40])), "count": cnt(),
                     "pos": rnd.choice([0, 0, 1, 2, 5, 8, 9, 17, 18, 40, 41, rnd.choice(BIG)])}
            elif op in ("write_to_cursor", "write_all_to_cursor"):
                a = {"addr": pos(), "count": cnt(), "room": rnd.choice([0, 0, 1, 2, 3, 7, 8, 9, 16, 40])}
            elif op == "ref_store":
                a = {"buf": buf({"len": 0})}
            elif op == "arr_store":
                a = {"i": rnd.choice([0, 1, 2, {"n": -1}, {"n": 0}]), "buf": buf(1, mulesz=True)}
            elif op == "arr_load":
                a = {"i": rnd.choice([0, 1, 2, {"n": -1}, {"n": 0}, rnd.choice(BIG)])}
            elif op == "arr_copy_to":
                a = {"bl": rnd.choice([0, 1, 2, 3, 5, 9, {"n": 0}, {"n": 1}, {"n": -1}])}
            elif op == "arr_copy_from":
                a = {"buf": buf(rnd.choice([0, 1, 2, 3, 5, 9, {"n": 0}, {"n": 1}]), mulesz=True)}
            else:
                a = {}
        prog.append({"op": op, "a": a})
    return prog


def traces(ctx, zst=None, release=False):
    if zst is None:
        zst = ctx.pid in ("C18", "C07")
    nhist, nops = (150, 60) if ctx.tier == "quick" else (2500, 80)
    prog = []
    # a deterministic sweep across the 64-page word boundaries of the dirty bitmap (one-byte pages): every start / length
    # pair around them, through three write paths, on heap slices and mapped regions
    for root in ("heap", "region"):
        for start in (0, 1, 62, 63, 64, 65, 127, 128):
            for ln in (1, 2, 62, 63, 64, 65, 66, 127, 128, 129):
                if start + ln <= 260:
                    prog.append({"op": "init", "a": {"root": root, "n": 260, "b": 0, "p": 1}})
                    prog.append({"op": "write", "a": {"addr": start, "buf": {"blen": ln, "seed": 7}}})
                    prog.append({"op": "bitmap_reset", "a": {}})
                    prog.append({"op": "read_volatile_from", "a": {"addr": start, "src": {"blen": ln, "seed": 9}, "count": ln}})
                    prog.append({"op": "bitmap_reset", "a": {}})
                    prog.append({"op": "subslice", "a": {"o": start, "c": ln}})
                    prog.append({"op": "write_obj", "a": {"addr": 0, "buf": {"blen": 1, "seed": 3}}})
                    prog.append({"op": "copy_from", "a": {"esz": 1, "buf": {"blen": ln, "seed": 11}}})
    for _ in range(nhist):
        prog += rnd_history(ctx.rnd, nops, zst)
    events = run_harness("volatile", prog, os.path.join(WORK, "tr_volatile_%s.ev.ndjson" % ctx.pid), ctx=ctx, release=release)
    skipped = sum(1 for e in events if e["r"].get("k") == "skip")
    chunk, k = [], 0
    for h in split_events(events):
        chunk += h
        if len(chunk) > 50000:
            judge(ctx, "tr_volatile_%s%s_%d" % (ctx.pid, "r" if release else "", k), chunk)
            chunk, k = [], k + 1
    if chunk:
        judge(ctx, "tr_volatile_%s%s_%d" % (ctx.pid, "r" if release else "", k), chunk)
    ctx.cov["traces_validated_against_impl"] += nhist
    ctx.cov["random_ops_applicable"] = ctx.cov.get("random_ops_applicable", 0) + len(events) - skipped
    ctx.sample({"kind": "recorded history validated by Trace_Volatile", "events":
                [{"op": e["op"], "a": e["a"], "r": e["r"]} for e in events[:12]]})


def run(ctx):
    mc(ctx)
    gen(ctx)
    traces(ctx)
    ctx.assumptions += [
        "TLC explores the specification exhaustively only for the small constants of the MC/Gen configurations",
        "64-bit extremes (usize::MAX, isize::MAX +- 1, pointer-overflowing counts) are covered by recorded traces "
        "in band encoding, not by proof",
        "reads outside the container are observed only through canaries / guard offsets, not by a sanitizer",
    ]
