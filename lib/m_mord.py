"""MarkOrder pipeline (C05, concurrent reading): a tracked write racing with a migration round.
TLC checks the model (copy-then-mark converges; mark-then-copy is refuted); on the real code every ordering of the
primitive copies and the bitmap's atomic steps is enumerated per scenario and each schedule is judged by TLC with the
diff-driven oracle: whatever differs from the image that was sent is still reported dirty."""
import os
from vlib import *

TLA = os.path.join(SPEC, "MC_MarkOrder.tla")
TRACE_TLA = os.path.join(SPEC, "Trace_MarkOrder.tla")


def W(addr, ln, val):
    return {"k": "write", "addr": addr, "len": ln, "val": val}


def WO(addr, esz, val):
    return {"k": "write_obj", "addr": addr, "esz": esz, "val": val}


def RF(addr, ln, val):
    return {"k": "read_from", "addr": addr, "len": ln, "val": val}


def SC(addr, ln, val):
    return {"k": "slice_copy_from", "addr": addr, "len": ln, "val": val}


def ST(addr, val):
    return {"k": "store", "addr": addr, "val": val}


R = {"k": "round"}

# (pages, page size, threads)
QUICK = [
    (4, 2, [[W(1, 2, 7)], [R, R]]),                  # two pages, small-copy path (one access per byte)
    (4, 2, [[W(3, 3, 5), W(0, 1, 9)], [R, R]]),      # two writes
    (4, 2, [[WO(2, 4, 3)], [R, R]]),                 # one 4-byte access over two pages
    (8, 2, [[W(1, 9, 6)], [R, R]]),                  # bulk branch (> 8 bytes), five pages
    (4, 2, [[RF(1, 3, 4)], [R, R]]),                 # stream read into memory
    (4, 2, [[SC(2, 3, 8)], [R, R]]),                 # VolatileSlice::copy_from on a sub-slice
    (4, 4, [[ST(4, 2)], [R, R]]),                    # atomic store (the data step is not a scheduling point)
    (4, 1, [[W(0, 2, 1)], [R], [W(1, 2, 2)]]),       # two writers on overlapping bytes, per-byte pages
]
THOROUGH = QUICK + [
    (4, 2, [[W(1, 2, 7), W(2, 3, 8)], [R, R, R]]),
    (6, 2, [[WO(3, 8, 3)], [R, R], [W(0, 4, 9)]]),
    (8, 2, [[W(1, 9, 6), W(10, 3, 2)], [R, R, R]]),
    (4, 2, [[RF(1, 3, 4), SC(4, 2, 1)], [R, R], [WO(6, 2, 5)]]),
]


def run(ctx):
    r = tlc_must_pass(TLA, os.path.join(SPEC, "MC_MarkOrder.cfg"), "mc_markorder", workers=4, timeout=900)
    ctx.add_mc(r, "MC_MarkOrder.cfg")
    if ctx.tier == "thorough":
        r = tlc_must_pass(TLA, os.path.join(SPEC, "MC_MarkOrder.thorough.cfg"), "mc_markorder", workers=8, timeout=1800)
        ctx.add_mc(r, "MC_MarkOrder.thorough.cfg")
    r = tlc(TLA, os.path.join(SPEC, "MC_MarkOrder.neg.cfg"), "mc_markorder_neg", workers=4, timeout=600)
    if r.ok or "Converges" not in open(r.out_path, errors="replace").read():
        raise ToolError("negative configuration MC_MarkOrder.neg.cfg (mark before copy) was not refuted")
    ctx.cov.setdefault("negative_configs_refuted", 0)
    ctx.cov["negative_configs_refuted"] += 1
    scen = QUICK if ctx.tier == "quick" else THOROUGH
    cap = 1500 if ctx.tier == "quick" else 30000
    prog = [{"op": "scenario", "a": {"pages": p, "psize": z, "threads": th, "max_schedules": cap, "seed": ctx.seed}} for p, z, th in scen]
    events = run_harness("mord", prog, os.path.join(WORK, "mord_%s.ev.ndjson" % ctx.pid), timeout=3000, ctx=ctx, one_event_per_line=False)
    summaries = [e["a"] for e in events if e["op"] == "summary"]
    events = [e for e in events if e["op"] != "summary"]
    for e in events:                       # word numbers are not used by the judgement
        if e["op"] == "step":
            e["a"].pop("w", None)
    nsched = sum(s["schedules"] for s in summaries)
    ctx.cov["mark_order_schedules"] = nsched
    ctx.cov["mark_order_scenarios"] = [{"pages": p, "page_size": z, "threads": th, "schedules": s["schedules"], "all_interleavings": s["exhaustive"]}
                                       for (p, z, th), s in zip(scen, summaries)]
    chunk, k = [], 0
    for h in split_events(events):
        chunk += h
        if len(chunk) > 100000:
            judge(ctx, "tr_mord_%s_%d" % (ctx.pid, k), chunk)
            chunk, k = [], k + 1
    if chunk:
        judge(ctx, "tr_mord_%s_%d" % (ctx.pid, k), chunk)
    ctx.cov["traces_validated_against_impl"] += nsched
    log("[mord] %d scenarios, %d schedules, %d events" % (len(scen), nsched, len(events)))
    ctx.assumptions += ["mark-order schedules: scheduling points are the bitmap's atomic steps and the primitive accesses of the byte-copy "
                        "helper; write paths that do not go through that helper (atomic store, typed-reference store) run unscheduled "
                        "between their neighbours - the oracle is schedule-agnostic, so this limits exploration, not soundness"]


def judge(ctx, name, events):
    mism = validate_trace(ctx, TRACE_TLA, os.path.join(SPEC, "Trace_MarkOrder.cfg"), name, events, encode=False, timeout=3000)
    for m in mism:
        i, tag, exp = m[0], m[1], m[2]
        j = i - 1
        while events[j]["op"] != "init":
            j -= 1
        k = i
        while k < len(events) and events[k]["op"] != "init":
            k += 1
        sc = events[j]["a"]
        ctx.mismatch({"module": "MarkOrder", "tag": tag, "op": tag, "a": {"threads": sc["threads"], "order": sc["order"]}, "r": {"k": tag}},
                     {"module": "mord", "scenario": sc, "history": [e["a"] for e in events[j + 1:k]], "expected": exp,
                      "program": [{"op": "scenario", "a": {"pages": sc["pages"], "psize": sc["psize"], "threads": sc["threads"], "max_schedules": 100000}}]})
    return mism
