"""CopyWidth pipeline (C06)."""
import os
from vlib import *

BUF = ["s_write", "s_write_slice", "s_read", "s_read_slice", "s_copy_from_u8", "s_copy_to_u8", "a_copy_from_u8", "a_copy_to_u8",
       "s_read_volatile_from_slice", "s_read_exact_from_slice", "s_read_from_cursor", "s_write_volatile_to_mutslice",
       "s_write_all_to_mutslice", "s_write_to_cursor", "s_write_to_vec", "adapter_read_volatile", "adapter_write_volatile",
       "r_write", "r_read", "g_write", "g_write_slice", "g_read", "g_read_slice"]
OBJ = ["s_write_obj", "s_read_obj", "r_write_obj", "r_read_obj", "g_write_obj", "g_read_obj"]
ATOM = ["s_store", "s_load"]


def run(ctx):
    r = tlc_must_pass(os.path.join(SPEC, "MC_CopyWidth.tla"), os.path.join(SPEC, "MC_CopyWidth.cfg"), "mc_copyw", workers=8, timeout=900)
    ctx.add_mc(r, "MC_CopyWidth.cfg")
    r = tlc(os.path.join(SPEC, "MC_CopyWidth.tla"), os.path.join(SPEC, "MC_CopyWidth.neg.cfg"), "mc_copyw_neg", workers=4, timeout=600)
    if r.ok:
        raise ToolError("negative configuration MC_CopyWidth.neg.cfg (tearing without the alignment premise) was not refuted")
    ctx.cov["negative_configs_refuted"] = 1
    ctx.cov["exhaustive"] = True
    prog = []
    lens = range(0, 10) if ctx.tier == "quick" else list(range(0, 18)) + [24, 32, 33]
    for e in BUF:
        for n in lens:
            for g in range(8):
                for lm in range(8):
                    prog.append({"op": "copy", "a": {"entry": e, "n": n, "gmod": g, "lmod": lm}})
    for e in OBJ + ATOM:
        for n in (1, 2, 4, 8):
            for g in range(8):
                for lm in range(8):
                    prog.append({"op": "copy", "a": {"entry": e, "n": n, "gmod": g, "lmod": lm}})
    events = run_harness("copyw", prog, os.path.join(WORK, "copyw.ev.ndjson"), ctx=ctx)
    singles = sum(1 for e in events if e["a"]["n"] in (1, 2, 4, 8) and e["r"]["gres"] % e["a"]["n"] == 0 and e["r"]["lres"] % e["a"]["n"] == 0
                  and e["a"]["entry"] not in ATOM)
    if singles < 100:
        raise ToolError("too few aligned power-of-two transfers were exercised (%d)" % singles)
    mism = validate_trace(ctx, os.path.join(SPEC, "Trace_CopyWidth.tla"), os.path.join(SPEC, "Trace_CopyWidth.C06.cfg"), "tr_copyw", events,
                          encode=False, timeout=1800)
    for m in mism:
        ev = events[m[0] - 1]
        ctx.mismatch({"module": "CopyWidth", "tag": m[1], "op": ev["a"]["entry"], "a": ev["a"], "r": ev["r"]},
                     {"module": "copyw", "program": [{"op": "copy", "a": ev["a"]}], "expected": m[2], "observed": ev})
    for d in parse_tagged(os.path.join(WORK, "tr_copyw.out"), "DRIFT")[:10]:
        ev = events[d[0] - 1]
        ctx.drift("%s n=%d guest%%8=%d local%%8=%d: access sequence %s, transcription %s" % (
            ev["a"]["entry"], ev["a"]["n"], ev["r"]["gres"], ev["r"]["lres"], json.dumps(ev["r"]["acc"]), json.dumps(d[2]["expected"])))
    ctx.cov["traces_validated_against_impl"] += len(events)
    ctx.cov["aligned_power_of_two_transfers"] = singles
    ctx.sample({"kind": "recorded primitive accesses of one transfer", "events": [events[len(events) // 3], events[-1]]})
    ctx.assumptions += [
        "the hook reports the width copy_single was asked for; that copy_single performs it as one machine access of that "
        "width is the compiler's read_volatile/write_volatile contract (a byte loop inside copy_single would not be seen by the quick tier)",
        "memory-ordering strength of the atomic load/store is not observable",
    ]
