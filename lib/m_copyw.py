"""CopyWidth pipeline (C06)."""
import os
from vlib import *

BUF = ["s_write", "s_write_slice", "s_read", "s_read_slice", "s_copy_from_u8", "s_copy_to_u8", "a_copy_from_u8", "a_copy_to_u8",
       "s_read_volatile_from_slice", "s_read_exact_from_slice", "s_read_from_cursor", "s_write_volatile_to_mutslice",
       "s_write_all_to_mutslice", "s_write_to_cursor", "s_write_to_vec", "s_write_to_vec_used", "s_write_all_to_vec_used", "adapter_read_volatile", "adapter_write_volatile",
       "r_write", "r_read", "g_write", "g_write_slice", "g_read", "g_read_slice"]
OBJ = ["s_write_obj", "s_read_obj", "r_write_obj", "r_read_obj", "g_write_obj", "g_read_obj"]
ATOM = ["s_store", "s_load"]
ATOM2 = ["s_store", "s_load", "r_store", "r_load", "g_store", "g_load"]


def run(ctx):
    r = tlc_must_pass(os.path.join(SPEC, "MC_CopyWidth.tla"), os.path.join(SPEC, "MC_CopyWidth.cfg"), "mc_copyw", workers=8, timeout=900)
    ctx.add_mc(r, "MC_CopyWidth.cfg")
    r = tlc(os.path.join(SPEC, "MC_CopyWidth.tla"), os.path.join(SPEC, "MC_CopyWidth.neg.cfg"), "mc_copyw_neg", workers=4, timeout=600)
    if r.ok:
        raise ToolError("negative configuration MC_CopyWidth.neg.cfg (tearing without the alignment premise) was not refuted")
    ctx.cov["negative_configs_refuted"] = 1
    ctx.cov["exhaustive"] = True
    prog = []
    lens = range(0, 10) if ctx.tier == "quick" else list(range(0, 18)) + [24, 32, 33]
    for e in BUF:
        for n in lens:
            for g in range(8):
                for lm in range(8):
                    prog.append({"op": "copy", "a": {"entry": e, "n": n, "gmod": g, "lmod": lm}})
    for e in OBJ + ATOM2:
        for n in (1, 2, 4, 8):
            for g in range(8):
                for lm in range(8):
                    prog.append({"op": "copy", "a": {"entry": e, "n": n, "gmod": g, "lmod": lm}})
    # the atomic entries with the weaker orderings (alignment must be demanded whatever ordering is requested)
    for e in ATOM2:
        for o in (("relaxed", "release") if e.endswith("store") else ("relaxed", "acquire")):
            for n in (1, 2, 4, 8):
                for g in range(8):
                    prog.append({"op": "copy", "a": {"entry": e, "n": n, "gmod": g, "lmod": 0, "ord": o}})
    events = run_harness("copyw", prog, os.path.join(WORK, "copyw.ev.ndjson"), ctx=ctx)
    singles = sum(1 for e in events if e["a"]["n"] in (1, 2, 4, 8) and e["r"]["gres"] % e["a"]["n"] == 0 and e["r"]["lres"] % e["a"]["n"] == 0
                  and e["a"]["entry"] not in ATOM2)
    if singles < 100:
        raise ToolError("too few aligned power-of-two transfers were exercised (%d)" % singles)
    mism = validate_trace(ctx, os.path.join(SPEC, "Trace_CopyWidth.tla"), os.path.join(SPEC, "Trace_CopyWidth.C06.cfg"), "tr_copyw", events,
                          encode=False, timeout=1800)
    for m in mism:
        ev = events[m[0] - 1]
        ctx.mismatch({"module": "CopyWidth", "tag": m[1], "op": ev["a"]["entry"], "a": ev["a"], "r": ev["r"]},
                     {"module": "copyw", "program": [{"op": "copy", "a": ev["a"]}], "expected": m[2], "observed": ev})
    for d in parse_tagged(os.path.join(WORK, "tr_copyw.out"), "DRIFT")[:10]:
        ev = events[d[0] - 1]
        ctx.drift("%s n=%d guest%%8=%d local%%8=%d: access sequence %s, transcription %s" % (
            ev["a"]["entry"], ev["a"]["n"], ev["r"]["gres"], ev["r"]["lres"], json.dumps(ev["r"]["acc"]), json.dumps(d[2]["expected"])))
    ctx.cov["traces_validated_against_impl"] += len(events)
    ctx.cov["aligned_power_of_two_transfers"] = singles
    ctx.sample({"kind": "recorded primitive accesses of one transfer", "events": [events[len(events) // 3], events[-1]]})
    ctx.assumptions += [
        "the hook reports the width copy_single was asked for; what the processor is then asked to do is observed by the machine-level "
        "pass (valgrind lackey) on the aligned cases",
        "memory-ordering strength: only 'a SeqCst store is a locked read-modify-write instruction' is observed (machine level, x86-64)",
    ]
    machine(ctx)


# ---------------------------------------------------------------------------
# machine level: what the processor is asked to do (valgrind lackey), judged by the same specification
# ---------------------------------------------------------------------------
import re
import subprocess

_LK = re.compile(r'^ ([LSM]) ([0-9a-fA-F]+),(\d+)')


def machine(ctx):
    """The hook reports the width copy_single was ASKED for.  Here the executor runs under valgrind's lackey tool, which
    reports every load (L), store (S) and read-modify-write (M) instruction with its address and size; marker stores
    delimit each library call.  For every aligned 1/2/4/8-byte transfer the guest location must be touched by exactly
    one instruction, of that size, in the right direction - a byte loop or a memcpy inside the helper shows up here.
    An atomic store requested with SeqCst must be a locked read-modify-write instruction (x86-64: xchg), which is how
    the requested ordering is visible at this level."""
    exe = build_harness("vmh", False)
    prog = []
    entries = BUF + OBJ + ATOM2
    for e in entries:
        for n in (1, 2, 4, 8):
            prog.append({"op": "copy", "a": {"entry": e, "n": n, "gmod": 0, "lmod": 0}})
            if e in ATOM2:
                for o in (("relaxed", "release") if e.endswith("store") else ("relaxed", "acquire")):
                    prog.append({"op": "copy", "a": {"entry": e, "n": n, "gmod": 0, "lmod": 0, "ord": o}})
            if n < 8 and e not in ATOM2:
                prog.append({"op": "copy", "a": {"entry": e, "n": n, "gmod": n, "lmod": 8 - n}})
            if ctx.tier == "thorough":
                # every guest residue, two local residues: aligned and misaligned cases alike
                for g in range(8):
                    for lm in (0, 3):
                        prog.append({"op": "copy", "a": {"entry": e, "n": n, "gmod": g, "lmod": lm}})
        if e in BUF:
            prog.append({"op": "copy", "a": {"entry": e, "n": 3, "gmod": 1, "lmod": 2}})
    prog_path = os.path.join(WORK, "copyw_mach.prog")
    out_path = os.path.join(WORK, "copyw_mach.ev.ndjson")
    log_path = os.path.join(WORK, "copyw_mach.lackey")
    with open(prog_path, "w") as f:
        for line in prog:
            f.write(json.dumps(line, separators=(",", ":")) + "\n")
    env = dict(os.environ, VMH_MACH="1", VMH_OP_LIMIT_S="600")
    t0 = time.time()
    p = subprocess.run(["valgrind", "--tool=lackey", "--trace-mem=yes", "--log-file=" + log_path, exe, "copyw", prog_path, out_path],
                       stdout=subprocess.PIPE, stderr=subprocess.PIPE, text=True, timeout=3000, env=env)
    if p.returncode != 0:
        raise ToolError("executor under valgrind failed rc=%d: %s" % (p.returncode, p.stderr[-1500:]))
    events = [json.loads(l) for l in open(out_path) if l.strip()]
    if len(events) != len(prog):
        raise ToolError("executor under valgrind returned %d events for %d lines" % (len(events), len(prog)))
    mark = events[0]["r"]["mark"]
    windows, cur, inside, instr = [], None, False, 0
    with open(log_path, errors="replace") as f:
        for line in f:
            if line.startswith("I"):
                instr += 1
                continue
            m = _LK.match(line)
            if not m:
                continue
            kind, addr, size = m.group(1), int(m.group(2), 16), int(m.group(3))
            if addr == mark:
                if not inside:
                    cur, inside = [], True
                else:
                    windows.append(cur)
                    inside = False
                continue
            if inside:
                cur.append((kind, addr, size, instr))
    os.remove(log_path)
    if len(windows) != len(events):
        raise ToolError("lackey log has %d marked windows for %d operations" % (len(windows), len(events)))
    touched = 0
    for ev, w in zip(events, windows):
        g0, n = ev["r"]["gstart"], ev["a"]["n"]
        hit = [(k, a - g0, s, i) for (k, a, s, i) in w if a < g0 + max(n, 1) and a + s > g0]
        ren = {}
        ev["r"]["mach"] = [[k, o, s, ren.setdefault(i, len(ren) + 1)] for (k, o, s, i) in hit]
        ev["r"].pop("mark", None)
        ev["r"].pop("gstart", None)
        touched += len(ev["r"]["mach"])
    if touched < len(events) // 2:
        raise ToolError("the machine-level log shows almost no access to the guest locations (%d)" % touched)
    mism = validate_trace(ctx, os.path.join(SPEC, "Trace_CopyWidth.tla"), os.path.join(SPEC, "Trace_CopyWidth.C06.cfg"), "tr_copyw_mach", events,
                          encode=False, timeout=1800)
    for m in mism:
        ev = events[m[0] - 1]
        ctx.mismatch({"module": "CopyWidth", "tag": m[1], "op": ev["a"]["entry"], "a": ev["a"], "r": {"k": m[1], "mach": ev["r"]["mach"]}},
                     {"module": "copyw", "program": [{"op": "copy", "a": ev["a"]}], "expected": m[2], "observed": ev})
    ctx.cov["machine_level_transfers"] = len(events)
    ctx.cov["machine_level_accesses_to_guest_locations"] = touched
    ctx.cov["traces_validated_against_impl"] += len(events)
    log("[lackey] %d transfers, %d machine accesses to guest locations, %.0fs" % (len(events), touched, time.time() - t0))
    ctx.sample({"kind": "machine-level accesses of one transfer (valgrind lackey: kind, offset from the guest location, size)",
                "events": [events[0], events[len(events) // 2]]})
    ctx.assumptions += ["machine level: x86-64; an instruction reported by lackey as one L/S/M of size n is one access; a SeqCst store is "
                        "expected as a locked read-modify-write (xchg), a weaker store as a plain mov"]

