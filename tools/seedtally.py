#!/usr/bin/env python3
"""Writes /verif/seeded/RESULTS.md from the meta.json files."""
import json, glob, os
rows = []
for f in sorted(glob.glob("/verif/seeded/*/meta.json")):
    m = json.load(open(f))
    notes = os.path.join(os.path.dirname(f), "notes.md")
    first = ""
    if "needs" in m:
        first = m["needs"]
    caught_by = [c for c, v in m["checks"].items() if v["exit"] == 1]
    classes = "; ".join(sorted(set(x.split("class ")[1].rsplit(":", 1)[0] for c in caught_by for x in m["checks"][c]["classes"]))[:4])
    ok = m["applies"] and m["baseline_passes"] and m["demo_fails_with_change"] and m["demo_passes_without_change"]
    rows.append("| %s | %s | %s | %s | %s | %s |" % (m["name"], m["property"], "yes" if ok else "NO", ", ".join(caught_by) or "-", classes, first))
with open("/verif/seeded/RESULTS.md", "w") as f:
    f.write("# Seeded changes (produced by sub-agents that saw only the property text)\n\n"
            "Each directory holds patch.diff, the demonstration (demo.rs), the author's notes and meta.json (what was run).\n"
            "`confirmed` = I re-ran it in a scratch worktree: the patch applies, the 81 baseline tests pass with it, the demonstration\n"
            "fails with it and passes without it. `caught by` = `./check <ID> quick` exits 1 with a VIOLATION line when the patch is applied to /repo.\n\n"
            "| change | property | confirmed | caught by | violation classes | needs |\n|---|---|---|---|---|---|\n" + "\n".join(rows) + "\n")
print(len(rows), "rows")
