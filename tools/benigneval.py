#!/usr/bin/env python3
"""Evaluates a change that KEEPS a property: usage  benigneval.py <PROP> <srcdir> <name> [check ids...]
The change (patch.diff, notes.md from a sub-agent that saw only the property text) is verified in a scratch worktree
(applies, baseline tests pass), then applied to /repo, the property's quick check is run (evidence redirected), and
/repo is restored.  Expected: exit 0, no VIOLATION line.  Result: /verif/seeded/benign/<name>/meta.json"""
import json, os, shutil, subprocess, sys, time
ROOT = "/verif"
prop, src, name = sys.argv[1], sys.argv[2], sys.argv[3]
checks = sys.argv[4:] or [prop]
out = os.path.join(ROOT, "seeded", "benign", name)
os.makedirs(out, exist_ok=True)
for f in ("patch.diff", "notes.md"):
    if os.path.exists(os.path.join(src, f)):
        shutil.copy(os.path.join(src, f), os.path.join(out, f))
patch = os.path.join(out, "patch.diff")


def sh(cmd, cwd=None, timeout=3600):
    env = dict(os.environ, VERIF_EVIDENCE_DIR="/verif/work/seed-evidence")
    p = subprocess.run(cmd, shell=True, cwd=cwd, stdout=subprocess.PIPE, stderr=subprocess.STDOUT, text=True, timeout=timeout, env=env)
    return p.returncode, p.stdout


meta = {"property": prop, "name": name, "kind": "property-preserving change"}
wt = "/tmp/wt-benign-eval"
sh("git -C /repo worktree remove --force %s" % wt)
sh("git -C /repo worktree add -q --detach %s HEAD" % wt)
shutil.copy("/repo/Cargo.lock", wt)
rc, o = sh("git apply %s" % patch, cwd=wt)
meta["applies"] = rc == 0
rc, o = sh("cargo test --offline 2>&1 | grep -E '^test result|^error' ", cwd=wt)
meta["baseline_with_change"] = [l for l in o.splitlines() if l.startswith("test result")]
meta["baseline_passes"] = bool(meta["baseline_with_change"]) and all(" 0 failed" in l for l in meta["baseline_with_change"]) and "error" not in o
sh("git -C /repo worktree remove --force %s" % wt)
sh("git -C /repo worktree prune")
rc, o = sh("git -C /repo status --porcelain")
if o.strip():
    print("refusing: /repo is not clean"); sys.exit(2)
rc, o = sh("git -C /repo apply %s" % patch)
meta["checks"] = {}
try:
    for cid in checks:
        t0 = time.time()
        rc, o = sh("./check %s quick" % cid, cwd=ROOT)
        viol = [l for l in o.splitlines() if l.startswith("VIOLATION")]
        classes = [l.strip() for l in o.splitlines() if l.strip().startswith("violation class")]
        meta["checks"][cid] = {"exit": rc, "violations_reported": len(viol), "classes": classes[:8], "wall_s": round(time.time() - t0)}
        if rc != 0:
            meta["checks"][cid]["tail"] = [l for l in o.splitlines() if not l.startswith("WARNING")][-14:]
finally:
    sh("git -C /repo checkout -- .")
meta["quiet"] = all(v["exit"] == 0 for v in meta["checks"].values())
json.dump(meta, open(os.path.join(out, "meta.json"), "w"), indent=1)
print(json.dumps({k: meta[k] for k in ("name", "applies", "baseline_passes", "quiet")}), {c: (v["exit"], v["classes"][:3]) for c, v in meta["checks"].items()})
