#!/usr/bin/env python3
"""Regenerates /verif/MANIFEST.json from the table below (kept next to the checks so they stay in sync)."""
import json, os
ROOT = os.path.dirname(os.path.dirname(os.path.abspath(__file__)))
props = [json.loads(l) for l in open(os.path.join(ROOT, "properties.jsonl"))]

TECH = "TLA+ spec + TLC model checking; spec-generated transition tests replayed on the code; TLC trace validation of recorded executions"
COMMON_NOTE = ("Exhaustive only within the small constants of the TLC configurations (every value of a small word / small "
               "address universe); 64-bit extremes are covered by recorded traces in band encoding (0, 2^63, 2^64 +- 2^20), "
               "not by proof. Trusted: TLC, the harness executor and its state projection, rustc.")

CLAIMS = {
 "C01": ("tlc-volatile", "Volatile.tla models the accessor at the end of a derivation chain (extent relative to the root, kind, element size) with one action per derivation / query of the API. TLC checks containment in the root and in the parent, alignment of typed/atomic references and 'error => no accessor' for every offset/count of a small word; every transition of the derivation graph is replayed on real VolatileSlice / MmapRegion / VolatileRef / VolatileArrayRef objects (extents read back through ptr_guard, canaries around the buffer) and judged by TLC trace validation, as are boundary-biased random derivation chains with usize::MAX / isize::MAX / pointer-overflowing arguments.", "6 C01"),
 "C02": ("tlc-guestmem", "GuestMem.tla defines every address-space query from the interval set of regions; TLC proves the binary search of find_region and the try_access loop equal to that definition for every layout of an 8-address space (<=3 regions, regions touching, ending at the top), and every (layout, query, address) edge is replayed on GuestMemoryMmap and on a backend that only inherits the provided default methods; random large layouts near 0, 2^63 and 2^64 are validated as traces.", "6 C02"),
 "C03": ("tlc-guestmem", "GuestMem.tla defines reads/writes as transfers over the longest run of consecutively mapped addresses of one flat sparse byte array; the transcribed try_access loop is checked against it by TLC for every layout/start/count (a negative configuration with the original wrap-to-0 arm is refuted), and every data transition (buffer, slice, object, atomic, stream forms at guest and region level) is replayed on anonymous, file-backed and custom-backend regions with the full contents of every region (and the backing file) compared after each step.", "6 C03"),
 "C04": ("tlc-volatile", "Volatile.tla gives every data accessor of a container (buffer, slice, object, atomic, typed ref, element array, element-wise and slice-to-slice copies, stream forms) its exact byte effect and count; TLC checks the frame property (only bytes of the accessor or of the named copy target change) on all small cases, and all transitions plus random mixed histories on real containers are validated by TLC with the whole container read back through the raw pointer after each step.", "6 C04"),
 "C05": ("tlc-volatile+guestmem", "The dirty-page set is part of the Volatile and GuestMem states; soundness is checked by TLC as an action property driven by the byte diff (every changed byte lies in a dirty page afterwards), independent of what the operation claims. Traces from the real code (page sizes 1..4096, sliced bitmaps through derivation chains, region-straddling guest writes, a failing descriptor read) are validated twice: changed bytes must be dirty and the specification's own page set must be included.", "6 C05"),
 "C16": ("tlc-volatile+guestmem", "Same states as C05 with the converse inclusion: after each recorded operation the bitmap of every region must not contain any page outside the specification's page set (reads, queries, derivations, stream-out and refused requests leave it unchanged; a failed descriptor read marks exactly its target).", "6 C16"),
 "C07": ("tlc-volatile+guestmem", "Every recorded call (all entry points of slices, regions, guest memory and bitmaps, arguments drawn from 0, len+-1, isize::MAX+-1, usize::MAX, top/bottom-of-space layouts) must not end in a panic unless the specification marks it as a documented index panic; the impl-shaped try_access / range arithmetic is written with trapping unchecked operators and TLC checks that no trap is reachable.", "6 C07"),
 "C18": ("tlc-volatile+guestmem", "Zero-length requests (empty buffers, zero-sized element types, zero counts) are ordinary members of the enumerated argument sets at slice, region and guest-memory level; the trace specification demands Ok and unchanged memory and bitmap for each of them, at mapped, unmapped, one-past and extreme addresses.", "6 C18"),
 "C10": ("tlc-regions", "Regions.tla keeps every map ever created (a map is an immutable sequence of region ids) and transcribes from_arc_regions / insert_region (push + stable sort) / remove_region; TLC checks on all histories of up to 5-6 operations (overlap by one byte, duplicate starts, adjacency, wrong-size and non-start removals) that the checks accept exactly the sorted disjoint sequences, that every returned map is sorted/disjoint and equals the old set plus/minus one region, and that no earlier map ever changes. Every history is replayed on the real GuestMemoryMmap with ALL maps and removed handles kept alive and re-observed after every step (iter(), num_regions(), a tag byte read through each map to establish region identity), also shifted to 2^63 and to the top of the address space where creation must be refused exactly when base+size reaches 2^64.", "6 C10"),
 "C13": ("tlc-streams", "Streams.tla specifies each adapter class (consuming source, bounded sink, growing sink, read cursor, write cursor, file descriptor) by what std::io::Read/Write does with an ordinary buffer; TLC checks exact-iff-enough and the sink frame on all call sequences of length 4 over stream/buffer lengths on both sides of the 8-byte threshold and positions past the end. Every such sequence is replayed on every real adapter of the class (&[u8], &mut [u8], Vec, Cursor<Vec>, Cursor<&[u8]>, Cursor<&mut [u8]>, File, OwnedFd, BorrowedFd, UnixStream) next to the std call on a twin stream; TLC validates the volatile outcome against the specification, against the std outcome, and the std outcome against the specification (guarding the transcription of std).", "6 C13"),
 "C14": ("tlc-guestmem", "ScriptIO.tla transcribes retry_eintr! and the default exact loops; GuestMem.tla composes them with the try_access continuation across regions. TLC checks 'interruption never surfaces', 'exact iff full count' and 'every consumed byte is stored at the next guest address' for every script of up to 3 per-call behaviours (full, short 1/2, zero, EINTR, error) x every start and count on layouts with touching regions, holes and a target ending in a hole; every such transition (scripts up to length 2 quick / 4 thorough) is replayed with scripted reader/writer objects on region and guest level (mmap, file-backed and default-method backends) and validated by TLC, plus random longer scripts.", "6 C14"),
 "C19": ("tlc-addrarith", "AddrArith.tla states the exact meaning of every address operation and transcribes checked_align_up / unchecked_align_up / mask; TLC checks transcription = meaning for every operand pair of an 8-bit word and checks the 16-bit-limb arithmetic used for 64-bit operands against integer arithmetic. The crate's own macro instantiated at 8 bits (hook) is driven over operand pairs and GuestAddress / MemoryRegionAddress over all pairings of values within 4 of 0, 2^32, 2^63, 2^64, all 64 alignments and random operands; every recorded result is validated by TLC.", "6 C19"),
 "C20": ("tlc-endian", "Endian.tla models the wrapper exactly as the endian_type! macro builds it, as a function of the host byte order, and states round trip, wire format and exact equality on bytes; TLC checks them for every value of a small digit base on both hosts. Records from the eight real wrapper types (as_slice bytes, to_native, both comparison directions against the value and against a different value, size/alignment, bytes in a VolatileSlice after write_obj, read back) are validated by TLC: all values of the 16-bit types, structured patterns and random values for the wider ones.", "6 C20"),
 "C08": ("tlc-bitmapconc", "BitmapConc.tla models every bitmap operation as the per-thread sequence of single-word atomic steps the code performs and TLC explores every interleaving of 2-3 threads (marks sharing a word and spanning two words, harvests, resets, clones), checking no-lost-mark, no-phantom and 'a step only clears/sets bits its operation is entitled to'; the load;store variant is refuted as a negative configuration. On the real AtomicBitmap an atomic shim (hook) turns every atomic operation into a scheduling point and a baton scheduler enumerates every ordering of those steps per scenario (thousands of schedules; a mutant's extra loads/stores become scheduling points by themselves); each recorded history is judged by TLC with generic atomic-memory semantics plus the same accounting rules.", "6 C08"),
 "C09": ("tlc-bitmap", "TLA+ specification of the bitmap as a set of page numbers, checked exhaustively by TLC for a small word (every start/length, every geometry) including the transcription of the range arithmetic; every transition of the small-scope state graph is replayed as a test on the real AtomicBitmap / Option / RefSlice / ArcSlice, and boundary-biased random histories (64-page boundaries, ranges near usize::MAX) recorded from the real code are validated by TLC against the same actions.", "6 C09"),
}
ENGINES = {
 "tlc-bitmapconc": ("/verif/spec/BitmapConc.tla", "atomic step machines of the bitmap operations; accounting rules shared with the trace specification"),
 "tlc-bitmap": ("/verif/spec/Bitmap.tla", "Bitmap as a set of page numbers"),
 "tlc-regions": ("/verif/spec/Regions.tla", "immutable maps built from region handles; history of all maps"),
 "tlc-streams": ("/verif/spec/Streams.tla", "stream adapters specified by their std::io counterparts"),
 "tlc-addrarith": ("/verif/spec/AddrArith.tla", "address arithmetic: exact meaning, transcription, limb arithmetic"),
 "tlc-endian": ("/verif/spec/Endian.tla", "endian wrappers as built by the macro, on both host byte orders"),
 "tlc-volatile": ("/verif/spec/Volatile.tla", "one volatile container and the accessor derivation chain, byte contents, dirty pages"),
 "tlc-guestmem": ("/verif/spec/GuestMem.tla", "guest memory as a flat sparse byte array over regions; try_access / find_region transcriptions"),
 "tlc-volatile+guestmem": ("/verif/spec/Volatile.tla + /verif/spec/GuestMem.tla", "both layers"),
}
PLANNED = "check not built yet in this round (planned, see DESIGN.md section 6)"

m = {
 "version": 1,
 "setup_cmd": "cd /verif/harness && CARGO_NET_OFFLINE=true cargo build --offline -q -p vmh",
 "hooks": {"guard": "--cfg vm_memory_verif",
           "enable": "rustflags in /verif/harness/.cargo/config.toml: --cfg vm_memory_verif (path dependency on /repo)",
           "baseline_off_cmd": "cd /repo && cargo test --workspace --no-fail-fast --offline",
           "source_commits": ["d23bc8f", "bd665bf"], "add_only": False},
 "engines": [], "checks": [], "not_applicable": [],
 "notes": "Model-based verification with explicit TLA+ specifications (see DESIGN.md). ./check <ID> quick|thorough; exit 0/1/2 = held / VIOLATION / tool error.",
}
for name, (path, txt) in ENGINES.items():
    m["engines"].append({"name": name, "path": path, "serves_properties": sorted(k for k, v in CLAIMS.items() if v[0] == name),
                         "kind_free_text": "TLA+ specification checked by TLC (" + txt + "); Rust executor /verif/harness/vmh"})
for p in props:
    pid = p["id"]
    if pid in CLAIMS:
        eng, text, ref = CLAIMS[pid]
        m["checks"].append({"property_id": pid, "quick_cmd": "./check %s quick" % pid, "thorough_cmd": "./check %s thorough" % pid,
                            "evidence_file": "/verif/evidence/%s.json" % pid, "replay_cmd_template": "./check %s --replay {path}" % pid,
                            "engine": eng, "level_claimed": {"category": "model_checking", "text": text, "design_ref": "DESIGN.md section " + ref},
                            "level_note": COMMON_NOTE, "technique": TECH})
    else:
        m["not_applicable"].append({"property_id": pid, "reason": PLANNED})
json.dump(m, open(os.path.join(ROOT, "MANIFEST.json"), "w"), indent=1)
print("claimed:", sorted(CLAIMS), "unclaimed:", [x["property_id"] for x in m["not_applicable"]])
