#!/usr/bin/env python3
"""Writes /verif/seeded/benign/RESULTS.md from the meta.json files of the property-preserving changes."""
import glob, json, os, re
ROOT = os.path.dirname(os.path.dirname(os.path.abspath(__file__)))
rows = []
for p in sorted(glob.glob(os.path.join(ROOT, "seeded", "benign", "*", "meta.json"))):
    m = json.load(open(p))
    d = os.path.dirname(p)
    what = ""
    notes = os.path.join(d, "notes.md")
    if os.path.exists(notes):
        for line in open(notes):
            line = line.strip()
            if line and not line.startswith("#"):
                what = re.sub(r"[`*|]", "", line)[:170]
                break
    patch = open(os.path.join(d, "patch.diff")).read() if os.path.exists(os.path.join(d, "patch.diff")) else ""
    files = sorted(set(re.findall(r"^\+\+\+ b/(\S+)", patch, re.M)))
    checks = ", ".join("%s: exit %d" % (c, v["exit"]) for c, v in m["checks"].items())
    rows.append("| %s | %s | %s | %s | %s | %s |" % (m["name"], m["property"], ", ".join(files), "yes" if m.get("baseline_passes") else "NO",
                                                   checks, "quiet" if m.get("quiet") else "**ALARM**"))
with open(os.path.join(ROOT, "seeded", "benign", "RESULTS.md"), "w") as f:
    f.write("# Property-preserving changes\n\nChanges written by sub-agents that saw only the property text and were asked to KEEP it true while changing how the\n"
            "code computes its result (refactorings, equivalent primitives, choices the property leaves open, fast paths).\n"
            "`baseline` = the 81 tests pass with the change; the property's quick check must exit 0 with the change applied to /repo.\n\n"
            "| change | property | files | baseline | check | verdict |\n|---|---|---|---|---|---|\n" + "\n".join(rows) + "\n")
print(len(rows), "rows;", sum(1 for r in rows if "ALARM" in r), "alarms")
