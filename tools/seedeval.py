#!/usr/bin/env python3
"""Evaluate a seeded change: tools/seedeval.py <PROPERTY> <dir with patch.diff, demo.rs, notes.md> <name> [check ids...]
1. in a scratch worktree of /repo: the change applies, the baseline tests pass with it, the demo fails with it and
   passes without it;  2. applied to /repo itself: ./check <ID> quick must report VIOLATION; then it is reverted.
The outcome is written to /verif/seeded/<name>/meta.json (with patch.diff, the demo and the notes)."""
import json, os, shutil, subprocess, sys, time

prop, src, name = sys.argv[1], sys.argv[2], sys.argv[3]
checks = sys.argv[4:] or [prop]
ROOT = "/verif"
out = os.path.join(ROOT, "seeded", name)
os.makedirs(out, exist_ok=True)
for f in ("patch.diff", "demo.rs", "notes.md"):
    if os.path.exists(os.path.join(src, f)) and os.path.abspath(src) != os.path.abspath(out):
        shutil.copy(os.path.join(src, f), os.path.join(out, f))
patch = os.path.join(out, "patch.diff")
FEAT = "backend-mmap backend-atomic backend-bitmap"


def sh(cmd, cwd=None, timeout=1800):
    env = dict(os.environ, VERIF_EVIDENCE_DIR="/verif/work/seed-evidence")
    p = subprocess.run(cmd, shell=True, cwd=cwd, stdout=subprocess.PIPE, stderr=subprocess.STDOUT, text=True, timeout=timeout, env=env)
    return p.returncode, p.stdout


meta = {"property": prop, "name": name, "ran": []}
wt = "/tmp/wt-eval-" + name
sh("git -C /repo worktree remove --force %s" % wt)
rc, o = sh("git -C /repo worktree add -q %s HEAD" % wt)
try:
    rc, o = sh("git apply %s" % patch, cwd=wt)
    meta["applies"] = rc == 0
    rc, o = sh("cargo test --offline 2>&1 | grep -E '^test result|^error' ", cwd=wt)
    meta["baseline_with_change"] = o.strip().splitlines()
    meta["baseline_passes"] = all("ok." in l for l in o.strip().splitlines()) and "81 passed" in o
    os.makedirs(os.path.join(wt, "tests"), exist_ok=True)
    shutil.copy(os.path.join(out, "demo.rs"), os.path.join(wt, "tests", "demo.rs"))
    rc1, o1 = sh("cargo test --offline --features '%s' --test demo 2>&1 | tail -15" % FEAT, cwd=wt)
    meta["demo_fails_with_change"] = rc1 != 0 or "FAILED" in o1 or "failed" in o1
    sh("git apply -R %s" % patch, cwd=wt)
    rc2, o2 = sh("cargo test --offline --features '%s' --test demo 2>&1 | tail -8" % FEAT, cwd=wt)
    meta["demo_passes_without_change"] = "test result: ok" in o2
    meta["ran"] += ["cargo test --offline (with change)", "cargo test --offline --features '%s' --test demo (with / without change)" % FEAT]
finally:
    sh("git -C /repo worktree remove --force %s" % wt)
# the checks, on /repo itself
rc, o = sh("git -C /repo status --porcelain")
if o.strip():
    print("refusing: /repo is not clean"); sys.exit(2)
rc, o = sh("git -C /repo apply %s" % patch)
meta["checks"] = {}
try:
    for cid in checks:
        t0 = time.time()
        rc, o = sh("./check %s quick" % cid, cwd=ROOT, timeout=3600)
        viol = [l for l in o.splitlines() if l.startswith("VIOLATION")]
        classes = [l.strip() for l in o.splitlines() if "violation class" in l]
        meta["checks"][cid] = {"exit": rc, "violations_reported": len(viol), "classes": classes[:8], "wall_s": round(time.time() - t0)}
        if rc not in (0, 1):
            meta["checks"][cid]["tool_error_tail"] = [l for l in o.splitlines() if not l.startswith("WARNING")][-12:]
        meta["ran"].append("git -C /repo apply patch.diff; ./check %s quick; git -C /repo checkout -- ." % cid)
finally:
    sh("git -C /repo checkout -- .")
meta["caught"] = any(v["exit"] == 1 for v in meta["checks"].values())
# a re-evaluation keeps what was established by hand before: what the change needs to manifest, and demonstrations
# that had to be run in a special way (pasted into the Xen unit tests)
_old = os.path.join(out, "meta.json")
if os.path.exists(_old):
    try:
        o = json.load(open(_old))
        if "needs" in o:
            meta["needs"] = o["needs"]
        if o.get("demo_fails_with_change") and o.get("demo_passes_without_change") and not (meta.get("demo_fails_with_change") and meta.get("demo_passes_without_change")):
            meta["demo_fails_with_change"] = True
            meta["demo_passes_without_change"] = True
            if len(o.get("ran", [])) > 1 and len(meta.get("ran", [])) > 1:
                meta["ran"][1] = o["ran"][1]
    except ValueError:
        pass
json.dump(meta, open(os.path.join(out, "meta.json"), "w"), indent=1)
print(json.dumps({k: meta[k] for k in ("name", "applies", "baseline_passes", "demo_fails_with_change", "demo_passes_without_change", "caught")}),
      {c: (v["exit"], v["classes"][:3]) for c, v in meta["checks"].items()})
